#!/usr/bin/env python3-vt
"""Entry point of every check:  ./check.py <property> [--tier quick|thorough] [--replay <path>]

exit 0 = property held on everything explored (KNOWN-FINDING lines allowed)
exit 1 = `VIOLATION property=<id> replay=<path>` (natively reproduced, not a known finding)
exit 2 = inconclusive (timeout, unwinding assertion, solver error, vacuity witness, model/real disagreement)
"""
import sys, os, argparse

sys.path.insert(0, os.path.dirname(os.path.abspath(__file__)))


def main():
    ap = argparse.ArgumentParser()
    ap.add_argument("prop")
    ap.add_argument("--tier", default=os.environ.get("VERIF_TIER", "quick"), choices=["quick", "thorough"])
    ap.add_argument("--replay", default=None)
    ap.add_argument("--only", default=None, help="restrict to harnesses / programs matching this substring (debugging)")
    a = ap.parse_args()
    prop = a.prop.upper()
    from lib import kani_checks, symx_checks
    if prop in kani_checks.PROPS:
        if a.replay:
            return kani_checks.replay(prop, a.replay)
        return kani_checks.check(prop, a.tier, only=a.only)
    if prop in symx_checks.PROPS:
        if a.replay:
            return symx_checks.replay(prop, a.replay)
        return symx_checks.check(prop, a.tier, only=a.only)
    print("unknown or not-applicable property", prop)
    return 2


if __name__ == "__main__":
    sys.exit(main())
