//! C09 (part): the `segment-codegen` cargo feature only switches the inlining attribute of
//! `ascent::internal::run_rule`; the function must return exactly what its closure returns and run
//! it exactly once, with and without the feature (the crate is built twice, see lib/symx_checks.py).
use ascent::internal::run_rule;

#[kani::proof]
pub fn run_rule_is_transparent() {
   let x: u32 = kani::any();
   let y: u8 = kani::any();
   let mut calls = 0u8;
   let r = run_rule(|| {
      calls += 1;
      (x ^ 0x5a5a, y)
   });
   assert!(r == (x ^ 0x5a5a, y));
   assert!(calls == 1);
   // a unit-returning rule body with a side effect, the shape the generated code uses
   let mut changed = false;
   run_rule(|| {
      if y > 3 {
         changed = true;
      }
   });
   assert!(changed == (y > 3));
   kani::cover!(changed);
   kani::cover!(!changed);
}
