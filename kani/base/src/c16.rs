//! C16 — lattice laws for every `Lattice` implementation shipped with ascent_base.
//!
//! One module per concrete instantiation.  Values are built from `kani::any()`
//! over the full bit-width of the scalar components (no assumptions), so every
//! pair / triple of values of the instantiation is covered by the solver.
use ascent_base::lattice::constant_propagation::ConstPropagation;
use ascent_base::lattice::ord_lattice::OrdLattice;
use ascent_base::lattice::{BoundedLattice, Dual, Product};
use ascent_base::Lattice;
use std::cmp::Ordering;
use std::cmp::Reverse;
use std::rc::Rc;
use std::sync::Arc;

fn le<T: PartialOrd>(a: &T, b: &T) -> bool { matches!(a.partial_cmp(b), Some(Ordering::Less | Ordering::Equal)) }

/// join / meet algebra: commutative, associative, idempotent, absorbing.
fn algebra<T: Lattice + Clone + PartialEq>(a: T, b: T, c: T) {
   // commutativity
   assert!(a.clone().join(b.clone()) == b.clone().join(a.clone()));
   assert!(a.clone().meet(b.clone()) == b.clone().meet(a.clone()));
   // associativity
   assert!(a.clone().join(b.clone()).join(c.clone()) == a.clone().join(b.clone().join(c.clone())));
   assert!(a.clone().meet(b.clone()).meet(c.clone()) == a.clone().meet(b.clone().meet(c.clone())));
   // idempotence
   assert!(a.clone().join(a.clone()) == a);
   assert!(a.clone().meet(a.clone()) == a);
   // absorption
   assert!(a.clone().join(a.clone().meet(b.clone())) == a);
   assert!(a.clone().meet(a.clone().join(b.clone())) == a);
}

/// agreement with PartialOrd + partial-order axioms.
fn order<T: Lattice + Clone + PartialEq>(a: T, b: T, c: T) {
   let a_le_b = le(&a, &b);
   assert!(a_le_b == (a.clone().join(b.clone()) == b));
   assert!(a_le_b == (a.clone().meet(b.clone()) == a));
   // join is an upper bound, meet a lower bound
   let j = a.clone().join(b.clone());
   let m = a.clone().meet(b.clone());
   assert!(le(&a, &j) && le(&b, &j));
   assert!(le(&m, &a) && le(&m, &b));
   // partial order consistent with ==
   assert!(a.partial_cmp(&a) == Some(Ordering::Equal));
   assert!((a.partial_cmp(&b) == Some(Ordering::Equal)) == (a == b));
   assert!(a.partial_cmp(&b) == b.partial_cmp(&a).map(Ordering::reverse));
   if a_le_b && le(&b, &a) {
      assert!(a == b);
   }
   if a_le_b && le(&b, &c) {
      assert!(le(&a, &c));
   }
   // operators agree with partial_cmp
   assert!((a <= b) == a_le_b);
   assert!((a < b) == (a.partial_cmp(&b) == Some(Ordering::Less)));
   assert!((a >= b) == le(&b, &a));
}

/// in-place variants leave the same value and report changes truthfully.
fn mutating<T: Lattice + Clone + PartialEq>(a: T, b: T) {
   let mut x = a.clone();
   let ch = x.join_mut(b.clone());
   assert!(x == a.clone().join(b.clone()));
   assert!(ch == (x != a));
   let mut y = a.clone();
   let ch = y.meet_mut(b.clone());
   assert!(y == a.clone().meet(b.clone()));
   assert!(ch == (y != a));
   // second application of the same argument never reports a change
   assert!(!x.join_mut(b.clone()));
   assert!(!y.meet_mut(b));
}

fn bounded<T: BoundedLattice + Clone + PartialEq>(a: T) {
   assert!(le(&T::bottom(), &a));
   assert!(le(&a, &T::top()));
   assert!(T::bottom().join(a.clone()) == a);
   assert!(T::top().meet(a.clone()) == a);
   assert!(T::top().join(a.clone()) == T::top());
   assert!(T::bottom().meet(a) == T::bottom());
}

macro_rules! lattice_laws {
   ($m:ident, $t:ty, $gen:expr) => {
      pub mod $m {
         use super::*;
         fn gen() -> $t { ($gen)() }
         #[kani::proof]
         pub fn algebra() {
            super::algebra::<$t>(gen(), gen(), gen());
            kani::cover!(true);
         }
         #[kani::proof]
         pub fn order() {
            let (a, b, c) = (gen(), gen(), gen());
            kani::cover!(le(&a, &b) && a != b);
            kani::cover!(a == b);
            super::order::<$t>(a, b, c);
         }
         #[kani::proof]
         pub fn mutating() {
            let (a, b) = (gen(), gen());
            kani::cover!(a.clone().join(b.clone()) != a);
            kani::cover!(a.clone().join(b.clone()) == a);
            super::mutating::<$t>(a, b);
         }
      }
   };
}

macro_rules! bounded_laws {
   ($m:ident, $t:ty, $gen:expr) => {
      pub mod $m {
         use super::*;
         #[kani::proof]
         pub fn bounded() {
            let a: $t = ($gen)();
            super::bounded::<$t>(a);
            kani::cover!(true);
         }
      }
   };
}

fn any_opt_u8() -> Option<u8> { if kani::any() { Some(kani::any()) } else { None } }
fn any_cp() -> ConstPropagation<u8> {
   match kani::any::<u8>() % 3 {
      0 => ConstPropagation::Bottom,
      1 => ConstPropagation::Constant(kani::any()),
      _ => ConstPropagation::Top,
   }
}

lattice_laws!(t_u8, u8, || kani::any::<u8>());
lattice_laws!(t_i8, i8, || kani::any::<i8>());
lattice_laws!(t_u64, u64, || kani::any::<u64>());
lattice_laws!(t_i128, i128, || kani::any::<i128>());
lattice_laws!(t_usize, usize, || kani::any::<usize>());
lattice_laws!(t_option_u8, Option<u8>, any_opt_u8);
lattice_laws!(t_option_option_u8, Option<Option<u8>>, || if kani::any() { Some(any_opt_u8()) } else { None });
lattice_laws!(t_box_u8, Box<u8>, || Box::new(kani::any::<u8>()));
lattice_laws!(t_rc_product, Rc<Product<(u8, u8)>>, || Rc::new(Product((kani::any::<u8>(), kani::any::<u8>()))));
lattice_laws!(t_arc_product, Arc<Product<(u8, u8)>>, || Arc::new(Product((kani::any::<u8>(), kani::any::<u8>()))));
lattice_laws!(t_reverse_u8, Reverse<u8>, || Reverse(kani::any::<u8>()));
lattice_laws!(t_dual_u8, Dual<u8>, || Dual(kani::any::<u8>()));
lattice_laws!(t_dual_option_product, Dual<Option<Product<(u8, i8)>>>, || Dual(if kani::any() {
   Some(Product((kani::any::<u8>(), kani::any::<i8>())))
} else {
   None
}));
lattice_laws!(t_ordlattice_u8, OrdLattice<u8>, || OrdLattice(kani::any::<u8>()));
lattice_laws!(t_tuple1, (u8,), || (kani::any::<u8>(),));
lattice_laws!(t_tuple2, (u8, u8), || (kani::any::<u8>(), kani::any::<u8>()));
lattice_laws!(t_tuple3, (u8, u8, u8), || (kani::any::<u8>(), kani::any::<u8>(), kani::any::<u8>()));
lattice_laws!(t_product2, Product<(u8, u8)>, || Product((kani::any::<u8>(), kani::any::<u8>())));
lattice_laws!(t_product_dual_opt, Product<(Dual<u8>, Option<u8>)>, || Product((Dual(kani::any::<u8>()), any_opt_u8())));
lattice_laws!(t_product3, Product<(u8, i8, Dual<u8>)>, || Product((kani::any::<u8>(), kani::any::<i8>(), Dual(kani::any::<u8>()))));
lattice_laws!(t_product_arr2, Product<[u8; 2]>, || Product([kani::any::<u8>(), kani::any::<u8>()]));
lattice_laws!(t_product_arr3, Product<[u8; 3]>, || Product([kani::any::<u8>(), kani::any::<u8>(), kani::any::<u8>()]));
lattice_laws!(t_constprop_u8, ConstPropagation<u8>, any_cp);
lattice_laws!(t_dual_constprop, Dual<ConstPropagation<u8>>, || Dual(any_cp()));

bounded_laws!(b_u8, u8, || kani::any::<u8>());
bounded_laws!(b_i8, i8, || kani::any::<i8>());
bounded_laws!(b_i128, i128, || kani::any::<i128>());
bounded_laws!(b_unit, (), || ());
bounded_laws!(b_option_u8, Option<u8>, any_opt_u8);
bounded_laws!(b_reverse_u8, Reverse<u8>, || Reverse(kani::any::<u8>()));
bounded_laws!(b_dual_u8, Dual<u8>, || Dual(kani::any::<u8>()));
bounded_laws!(b_dual_option_u8, Dual<Option<u8>>, || Dual(any_opt_u8()));
bounded_laws!(b_tuple2, (u8, u8), || (kani::any::<u8>(), kani::any::<u8>()));
bounded_laws!(b_product2, Product<(u8, i8)>, || Product((kani::any::<u8>(), kani::any::<i8>())));
bounded_laws!(b_product_arr2, Product<[u8; 2]>, || Product([kani::any::<u8>(), kani::any::<u8>()]));
bounded_laws!(b_constprop_u8, ConstPropagation<u8>, any_cp);

/// Dual and Reverse swap join and meet (and the order).
pub mod swap {
   use super::*;
   #[kani::proof]
   pub fn dual_swaps() {
      let (a, b): (u8, u8) = (kani::any(), kani::any());
      assert!(Dual(a).join(Dual(b)) == Dual(a.meet(b)));
      assert!(Dual(a).meet(Dual(b)) == Dual(a.join(b)));
      assert!(Dual(a).partial_cmp(&Dual(b)) == b.partial_cmp(&a));
      assert!(Dual(a).cmp(&Dual(b)) == b.cmp(&a));
      let mut x = Dual(a);
      let mut y = a;
      assert!(x.join_mut(Dual(b)) == y.meet_mut(b) && x.0 == y);
      let mut x = Dual(a);
      let mut y = a;
      assert!(x.meet_mut(Dual(b)) == y.join_mut(b) && x.0 == y);
      kani::cover!(a < b);
   }
   #[kani::proof]
   pub fn reverse_swaps() {
      let (a, b): (u8, u8) = (kani::any(), kani::any());
      assert!(Reverse(a).join(Reverse(b)) == Reverse(a.meet(b)));
      assert!(Reverse(a).meet(Reverse(b)) == Reverse(a.join(b)));
      assert!(Reverse(a).partial_cmp(&Reverse(b)) == b.partial_cmp(&a));
      let mut x = Reverse(a);
      let mut y = a;
      assert!(x.join_mut(Reverse(b)) == y.meet_mut(b) && x.0 == y);
      let mut x = Reverse(a);
      let mut y = a;
      assert!(x.meet_mut(Reverse(b)) == y.join_mut(b) && x.0 == y);
      kani::cover!(a < b);
   }
   #[kani::proof]
   pub fn dual_swaps_partial() {
      // over a genuinely partial order
      let a = Product((kani::any::<u8>(), kani::any::<u8>()));
      let b = Product((kani::any::<u8>(), kani::any::<u8>()));
      assert!(Dual(a).join(Dual(b)) == Dual(a.meet(b)));
      assert!(Dual(a).meet(Dual(b)) == Dual(a.join(b)));
      assert!(Dual(a).partial_cmp(&Dual(b)) == b.partial_cmp(&a));
      kani::cover!(a.partial_cmp(&b).is_none());
   }
}


/// `()` has a single value, so the "changed" / "strictly below" witnesses of the
/// generic macro are unsatisfiable by construction; its laws are checked without them.
pub mod t_unit {
   use super::*;
   #[kani::proof]
   pub fn laws() {
      super::algebra::<()>((), (), ());
      super::order::<()>((), (), ());
      super::mutating::<()>((), ());
      kani::cover!(true);
   }
}
