//! C16 — `Set<T>` and `BoundedSet<BOUND, T>`: the real code of set.rs / bounded_set.rs, with
//! `BTreeSet` replaced by the heap-free model of hook H3 (`ascent_base::verif_set`, only under
//! `cfg(all(ascent_verif, kani))`).  Values: every subset of {0,1,2} (membership bits symbolic),
//! and for BoundedSet<2,_> additionally TOP.
use ascent_base::lattice::bounded_set::BoundedSet;
use ascent_base::lattice::set::Set;
use ascent_base::lattice::BoundedLattice;
use ascent_base::Lattice;
use std::cmp::Ordering;

fn any_set() -> Set<u8> {
   let mut s = Set::<u8>::default();
   let (b0, b1, b2): (bool, bool, bool) = (kani::any(), kani::any(), kani::any());
   // insertion order is symbolic too: the model iterates in insertion order
   let rev: bool = kani::any();
   if rev {
      if b2 { s.0.insert(2); }
      if b1 { s.0.insert(1); }
      if b0 { s.0.insert(0); }
   } else {
      if b0 { s.0.insert(0); }
      if b1 { s.0.insert(1); }
      if b2 { s.0.insert(2); }
   }
   s
}

fn any_bset() -> BoundedSet<2, u8> {
   if kani::any() { BoundedSet::<2, u8>::TOP } else { BoundedSet::from_set(any_set()) }
}

fn le<T: PartialOrd>(a: &T, b: &T) -> bool { matches!(a.partial_cmp(b), Some(Ordering::Less | Ordering::Equal)) }

macro_rules! set_laws {
   ($m:ident, $t:ty, $gen:ident, $unwind:literal) => {
      pub mod $m {
         use super::*;
         #[kani::proof]
         #[kani::unwind($unwind)]
         pub fn commutative_idempotent() {
            let (a, b) = ($gen(), $gen());
            assert!(a.clone().join(b.clone()) == b.clone().join(a.clone()));
            assert!(a.clone().meet(b.clone()) == b.clone().meet(a.clone()));
            assert!(a.clone().join(a.clone()) == a);
            assert!(a.clone().meet(a.clone()) == a);
            kani::cover!(a != b);
         }
         #[kani::proof]
         #[kani::unwind($unwind)]
         pub fn absorption() {
            let (a, b) = ($gen(), $gen());
            assert!(a.clone().join(a.clone().meet(b.clone())) == a);
            assert!(a.clone().meet(a.clone().join(b.clone())) == a);
            kani::cover!(a != b);
         }
         #[kani::proof]
         #[kani::unwind($unwind)]
         pub fn order_agrees() {
            let (a, b) = ($gen(), $gen());
            let j = a.clone().join(b.clone());
            let m = a.clone().meet(b.clone());
            let a_le_b = le(&a, &b);
            assert!(a_le_b == (j == b));
            assert!(a_le_b == (m == a));
            assert!(le(&a, &j) && le(&b, &j) && le(&m, &a) && le(&m, &b));
            assert!(a.partial_cmp(&a) == Some(Ordering::Equal));
            assert!((a.partial_cmp(&b) == Some(Ordering::Equal)) == (a == b));
            assert!(a.partial_cmp(&b) == b.partial_cmp(&a).map(Ordering::reverse));
            kani::cover!(a.partial_cmp(&b).is_none());
            kani::cover!(a_le_b && a != b);
         }
         #[kani::proof]
         #[kani::unwind($unwind)]
         pub fn mutating() {
            let (a, b) = ($gen(), $gen());
            let mut x = a.clone();
            let ch = x.join_mut(b.clone());
            assert!(x == a.clone().join(b.clone()));
            assert!(ch == (x != a));
            let mut y = a.clone();
            let ch = y.meet_mut(b.clone());
            assert!(y == a.clone().meet(b.clone()));
            assert!(ch == (y != a));
            kani::cover!(x != a);
            kani::cover!(y != a);
            kani::cover!(x == a && b != a);
         }
      }
   };
}

macro_rules! set_assoc {
   ($m:ident, $t:ty, $gen:ident, $unwind:literal) => {
      pub mod $m {
         use super::*;
         #[kani::proof]
         #[kani::unwind($unwind)]
         pub fn associative_join() {
            let (a, b, c) = ($gen(), $gen(), $gen());
            assert!(a.clone().join(b.clone()).join(c.clone()) == a.clone().join(b.clone().join(c.clone())));
            kani::cover!(true);
         }
         #[kani::proof]
         #[kani::unwind($unwind)]
         pub fn associative_meet_transitive() {
            let (a, b, c) = ($gen(), $gen(), $gen());
            assert!(a.clone().meet(b.clone()).meet(c.clone()) == a.clone().meet(b.clone().meet(c.clone())));
            if le(&a, &b) && le(&b, &c) {
               assert!(le(&a, &c));
            }
            kani::cover!(true);
         }
      }
   };
}

set_laws!(set_u8, Set<u8>, any_set, 6);
set_laws!(bounded_set_2_u8, BoundedSet<2, u8>, any_bset, 6);
set_assoc!(set_u8_assoc, Set<u8>, any_set, 6);
/// thorough tier only (triples over BoundedSet are slow)
pub mod wide {
   use super::*;
   set_assoc!(bounded_set_2_u8_assoc, BoundedSet<2, u8>, any_bset, 6);
}

#[kani::proof]
#[kani::unwind(6)]
pub fn bounded_set_extremes() {
   let a = any_bset();
   assert!(le(&BoundedSet::<2, u8>::bottom(), &a));
   assert!(le(&a, &BoundedSet::<2, u8>::top()));
   assert!(BoundedSet::<2, u8>::bottom().join(a.clone()) == a);
   assert!(BoundedSet::<2, u8>::top().meet(a.clone()) == a);
   assert!(BoundedSet::<2, u8>::top().join(a.clone()) == BoundedSet::<2, u8>::top());
   kani::cover!(a.is_top());
   kani::cover!(a.count() == Some(2));
}
