//! C17 — the library aggregators of `ascent::aggregators` compute their
//! mathematical definition and are total.  Inputs: an array of `N` symbolic
//! values and a symbolic length `n <= N` (every multiset of up to N values,
//! including empty and singleton).
use ascent::aggregators;

pub const N: usize = 4;

fn any_len() -> usize {
   let n: usize = kani::any();
   kani::assume(n <= N);
   n
}

#[kani::proof]
#[kani::unwind(7)]
pub fn min_max() {
   let arr: [u8; N] = kani::any();
   let n = any_len();
   let got_min: Vec<u8> = aggregators::min(arr[..n].iter().map(|x| (x,))).collect();
   let got_max: Vec<u8> = aggregators::max(arr[..n].iter().map(|x| (x,))).collect();
   if n == 0 {
      assert!(got_min.is_empty() && got_max.is_empty());
   } else {
      let (mut lo, mut hi) = (arr[0], arr[0]);
      let mut i = 1;
      while i < n {
         if arr[i] < lo {
            lo = arr[i]
         }
         if arr[i] > hi {
            hi = arr[i]
         }
         i += 1;
      }
      assert!(got_min.len() == 1 && got_min[0] == lo);
      assert!(got_max.len() == 1 && got_max[0] == hi);
   }
   kani::cover!(n == N);
   kani::cover!(n == 0);
   std::mem::forget(got_min);
   std::mem::forget(got_max);
}

#[kani::proof]
#[kani::unwind(7)]
pub fn min_max_signed() {
   let arr: [i16; N] = kani::any();
   let n = any_len();
   let mut got_min = aggregators::min(arr[..n].iter().map(|x| (x,)));
   let mut got_max = aggregators::max(arr[..n].iter().map(|x| (x,)));
   let (gmin, gmax) = (got_min.next(), got_max.next());
   assert!(got_min.next().is_none() && got_max.next().is_none());
   assert!(gmin.is_some() == (n > 0) && gmax.is_some() == (n > 0));
   let mut i = 0;
   let (mut min_seen, mut max_seen) = (false, false);
   while i < n {
      assert!(gmin.unwrap() <= arr[i] && arr[i] <= gmax.unwrap());
      min_seen |= arr[i] == gmin.unwrap();
      max_seen |= arr[i] == gmax.unwrap();
      i += 1;
   }
   assert!(n == 0 || (min_seen && max_seen));
   kani::cover!(n == N && gmin != gmax);
}

#[kani::proof]
#[kani::unwind(7)]
pub fn sum_i16() {
   let arr: [i16; N] = kani::any();
   let n = any_len();
   let mut i = 0;
   let mut expect: i32 = 0;
   while i < n {
      kani::assume(arr[i] >= -8000 && arr[i] <= 8000); // precondition: the sum fits in i16
      expect += arr[i] as i32;
      i += 1;
   }
   let mut got = aggregators::sum(arr[..n].iter().map(|x| (x,)));
   let g = got.next();
   assert!(g == Some(expect as i16));
   assert!(got.next().is_none());
   kani::cover!(n == 0);
   kani::cover!(n == N && expect < 0);
}

#[kani::proof]
#[kani::unwind(7)]
pub fn sum_u8() {
   let arr: [u8; N] = kani::any();
   let n = any_len();
   let mut i = 0;
   let mut expect: u32 = 0;
   while i < n {
      expect += arr[i] as u32;
      i += 1;
   }
   kani::assume(expect <= 255); // precondition: the mathematical sum fits in u8
   let mut got = aggregators::sum(arr[..n].iter().map(|x| (x,)));
   assert!(got.next() == Some(expect as u8));
   assert!(got.next().is_none());
   kani::cover!(n == N && expect == 255);
}

#[kani::proof]
#[kani::unwind(7)]
pub fn count_exact_and_inexact() {
   let n = any_len();
   let keep: [bool; N] = kani::any();
   let units = [(); N];
   // exact size hint
   let mut got = aggregators::count(units[..n].iter().map(|_| ()));
   assert!(got.next() == Some(n));
   assert!(got.next().is_none());
   // inexact size hint (lower bound 0, upper bound n): a filtered iterator
   let mut expect = 0usize;
   let mut i = 0;
   while i < n {
      if keep[i] {
         expect += 1
      }
      i += 1;
   }
   let mut got = aggregators::count(keep[..n].iter().filter(|k| **k).map(|_| ()));
   assert!(got.next() == Some(expect));
   assert!(got.next().is_none());
   // flattened option-of-iterator, the shape the generated code passes
   let some = if kani::any() { Some(keep[..n].iter()) } else { None };
   let is_some = some.is_some();
   let mut got = aggregators::count(some.into_iter().flatten().map(|_| ()));
   assert!(got.next() == Some(if is_some { n } else { 0 }));
   kani::cover!(expect < n && expect > 0);
   kani::cover!(n == 0);
}

#[kani::proof]
#[kani::unwind(7)]
pub fn not_agg() {
   let n = any_len();
   let units = [(); N];
   let mut got = aggregators::not(units[..n].iter().map(|_| ()));
   let first = got.next();
   assert!(first.is_some() == (n == 0));
   assert!(got.next().is_none());
   let keep: [bool; N] = kani::any();
   let mut any = false;
   let mut i = 0;
   while i < n {
      any |= keep[i];
      i += 1;
   }
   let mut got = aggregators::not(keep[..n].iter().filter(|k| **k).map(|_| ()));
   assert!(got.next().is_some() == !any);
   kani::cover!(n == N && !any);
   kani::cover!(any);
}

#[kani::proof]
#[kani::unwind(7)]
pub fn mean_u8() {
   let arr: [u8; N] = kani::any();
   let n = any_len();
   let mut got = aggregators::mean(arr[..n].iter().map(|x| (x,)));
   let g = got.next();
   assert!(got.next().is_none());
   if n == 0 {
      assert!(g.is_none());
   } else {
      let mut s: u32 = 0;
      let mut i = 0;
      while i < n {
         s += arr[i] as u32;
         i += 1;
      }
      // sums of <= 4 bytes are exact in f64, so the result is bit-exact
      assert!(g == Some(s as f64 / n as f64));
   }
   kani::cover!(n == N);
}

/// percentile(p) with p an integer percent 0..=100 (both end points included),
/// input length M concrete (1..=4), values symbolic: never panics, yields nothing iff the
/// input is empty, and yields the element of rank min(floor(M*p/100), M-1) of the
/// sorted input.  (A symbolic *length* makes `slice::sort` explode in CBMC, so the
/// length is enumerated by instantiation: M = 0..=4.)
fn percentile_integer<const M: usize>() {
   let arr: [u8; M] = kani::any();
   let k: u8 = kani::any();
   kani::assume(k <= 100);
   let p = k as f64;
   let agg = aggregators::percentile::<u8, _>(p);
   let mut got = agg(arr.iter().map(|x| (x,)));
   let g = got.next();
   assert!(got.next().is_none());
   if M == 0 {
      assert!(g.is_none());
   } else {
      // reference: sort a copy (insertion sort), pick the rank
      let mut s = arr;
      let mut i = 1;
      while i < M {
         let mut j = i;
         while j > 0 && s[j - 1] > s[j] {
            s.swap(j - 1, j);
            j -= 1;
         }
         i += 1;
      }
      let mut idx = M * (k as usize) / 100;
      if idx > M - 1 {
         idx = M - 1
      }
      assert!(g == Some(s[idx]));
   }
   kani::cover!(k == 100);
   kani::cover!(k == 50);
   kani::cover!(k == 0);
}

/// percentile(p) for every f64 p in [0,100]: total, returns an input element.
fn percentile_real<const M: usize>() {
   let arr: [u8; M] = kani::any();
   let p: f64 = kani::any();
   kani::assume(p >= 0.0 && p <= 100.0);
   let agg = aggregators::percentile::<u8, _>(p);
   let mut got = agg(arr.iter().map(|x| (x,)));
   let g = got.next();
   assert!(g.is_some() == (M > 0));
   if let Some(v) = g {
      let mut found = false;
      let mut i = 0;
      while i < M {
         found |= arr[i] == v;
         i += 1;
      }
      assert!(found);
   }
   kani::cover!(p == 100.0);
   kani::cover!(p > 99.0 && p < 100.0);
}

macro_rules! percentile_harnesses {
   ($($m:literal => $i:ident, $r:ident);*) => {$(
      #[kani::proof]
      #[kani::unwind(7)]
      pub fn $i() { percentile_integer::<$m>() }
      #[kani::proof]
      #[kani::unwind(7)]
      pub fn $r() { percentile_real::<$m>() }
   )*};
}
percentile_harnesses!(1 => percentile_integer_n1, percentile_real_n1;
   2 => percentile_integer_n2, percentile_real_n2; 3 => percentile_integer_n3, percentile_real_n3;
   4 => percentile_integer_n4, percentile_real_n4);

/// empty input (a `[u8; 0]` array makes CBMC lose the constant length and run into
/// the general sort; an empty sub-slice of a symbolic array does not).
#[kani::proof]
#[kani::unwind(4)]
pub fn percentile_empty_input() {
   let arr: [u8; 2] = kani::any();
   let p: f64 = kani::any();
   kani::assume(p >= 0.0 && p <= 100.0);
   let agg = aggregators::percentile::<u8, _>(p);
   let mut got = agg(arr[..0].iter().map(|x| (x,)));
   assert!(got.next().is_none());
   kani::cover!(p == 100.0);
   kani::cover!(p == 0.0);
}

/// percentile rank on *long* inputs: the rank depends only on the input length and p, so the input is
/// the concrete sorted vector 0..L (L = 50, 100, 200 by instantiation) and only p (every integer
/// percent) is symbolic; the element returned must be the one of rank min(floor(L*p/100), L-1).
pub fn percentile_rank_long<const L: usize>() {
   let mut arr = [0u8; L];
   let mut i = 0;
   while i < L {
      arr[i] = i as u8;
      i += 1;
   }
   let k: u8 = kani::any();
   kani::assume(k <= 100);
   let agg = aggregators::percentile::<u8, _>(k as f64);
   let mut got = agg(arr.iter().map(|x| (x,)));
   let g = got.next();
   let mut idx = L * (k as usize) / 100;
   if idx > L - 1 {
      idx = L - 1
   }
   assert!(g == Some(idx as u8));
   kani::cover!(k == 29);
   kani::cover!(k == 100);
}

#[kani::proof]
#[kani::unwind(52)]
pub fn percentile_rank_len50() { percentile_rank_long::<50>() }
