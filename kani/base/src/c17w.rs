//! C17, thorough tier only: the long-input percentile rank harness at length 100 (does not finish
//! within the quick budget; measured > 300 s).
#[kani::proof]
#[kani::unwind(102)]
pub fn percentile_rank_len100() { crate::c17::percentile_rank_long::<100>() }
