//! C17, thorough tier only: the long-input percentile rank harness at length 64.
//! Measured: length 64 finishes in about 40 s; lengths 80 and 100 give no verdict within 1500 s /
//! 3000 s (40 GB allowed) — `slice::sort` switches to its general merge strategy above 64 elements,
//! which CBMC does not get through.
#[kani::proof]
#[kani::unwind(66)]
pub fn percentile_rank_len64() { crate::c17::percentile_rank_long::<64>() }
