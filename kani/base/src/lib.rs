//! Kani harnesses over the real `ascent_base` lattice implementations (C16)
//! and the real `ascent::aggregators` (C17).  Built from /repo by path.
#![allow(clippy::all)]
#[cfg(kani)]
pub mod c16;
#[cfg(kani)]
pub mod c09;
#[cfg(all(kani, ascent_verif))]
pub mod c16_sets;
#[cfg(kani)]
pub mod c17;
#[cfg(kani)]
pub mod c17w;
