//! C10 — a relation backed by the `eqrel` provider behaves as its explicit equivalence closure.
//!
//! Protocol driver (see c11.rs for the call sequence, which is read off the expansion of a
//! small `#[ds(eqrel)]` program): provider types chosen by the provider macros, symbolic rows
//! offered per iteration of a looping stratum, oracle = equivalence closure (reflexive on
//! mentioned elements, symmetric, transitive) of everything offered so far.
use ascent::internal::{RelFullIndexRead, RelFullIndexWrite, RelIndexMerge, RelIndexWrite, ToRelIndex0};

fn any_below(n: u8) -> u8 {
   let x: u8 = kani::any();
   kani::assume(x < n);
   x
}

// ------------------------------------------------------------------ binary form, indices [0] and [0, 1]

type Common2 = ascent_byods_rels::eqrel::rel_ind_common!(eq, (u8, u8), [[0], [0, 1]], ser, ());
type Full2 = ascent_byods_rels::eqrel::rel_full_ind!(eq, (u8, u8), [[0], [0, 1]], ser, (), (u8, u8), ());
type Ind0 = ascent_byods_rels::eqrel::rel_ind!(eq, (u8, u8), [[0], [0, 1]], ser, (), [0], (u8,), (u8,));

pub struct Eq2 {
   c_new: Common2,
   c_delta: Common2,
   c_total: Common2,
   f_new: Full2,
   f_delta: Full2,
   f_total: Full2,
   i_new: Ind0,
   i_delta: Ind0,
   i_total: Ind0,
}

impl Eq2 {
   fn start() -> Self {
      let mut s = Eq2 {
         c_delta: Default::default(),
         c_total: Default::default(),
         c_new: Default::default(),
         i_delta: Default::default(),
         i_total: Default::default(),
         i_new: Default::default(),
         f_delta: Default::default(),
         f_total: Default::default(),
         f_new: Default::default(),
      };
      RelIndexMerge::init(&mut s.c_new, &mut s.c_delta, &mut s.c_total);
      RelIndexMerge::init(
         &mut s.i_new.to_rel_index_write(&mut s.c_new),
         &mut s.i_delta.to_rel_index_write(&mut s.c_delta),
         &mut s.i_total.to_rel_index_write(&mut s.c_total),
      );
      RelIndexMerge::init(
         &mut s.f_new.to_rel_index_write(&mut s.c_new),
         &mut s.f_delta.to_rel_index_write(&mut s.c_delta),
         &mut s.f_total.to_rel_index_write(&mut s.c_total),
      );
      s
   }

   fn offer(&mut self, row: (u8, u8)) -> bool {
      if !RelFullIndexRead::contains_key(&self.f_total.to_rel_index(&self.c_total), &row)
         && !RelFullIndexRead::contains_key(&self.f_delta.to_rel_index(&self.c_delta), &row)
      {
         if RelFullIndexWrite::insert_if_not_present(&mut self.f_new.to_rel_index_write(&mut self.c_new), &row, ()) {
            RelIndexWrite::index_insert(&mut self.i_new.to_rel_index_write(&mut self.c_new), (row.0,), (row.1,));
            return true;
         }
      }
      false
   }

   fn merge(&mut self) {
      RelIndexMerge::merge_delta_to_total_new_to_delta(&mut self.c_new, &mut self.c_delta, &mut self.c_total);
      RelIndexMerge::merge_delta_to_total_new_to_delta(
         &mut self.i_new.to_rel_index_write(&mut self.c_new),
         &mut self.i_delta.to_rel_index_write(&mut self.c_delta),
         &mut self.i_total.to_rel_index_write(&mut self.c_total),
      );
      RelIndexMerge::merge_delta_to_total_new_to_delta(
         &mut self.f_new.to_rel_index_write(&mut self.c_new),
         &mut self.f_delta.to_rel_index_write(&mut self.c_delta),
         &mut self.f_total.to_rel_index_write(&mut self.c_total),
      );
   }

   fn in_total(&self, row: &(u8, u8)) -> bool { RelFullIndexRead::contains_key(&self.f_total.to_rel_index(&self.c_total), row) }
   fn in_delta(&self, row: &(u8, u8)) -> bool { RelFullIndexRead::contains_key(&self.f_delta.to_rel_index(&self.c_delta), row) }
}

/// equivalence closure over 2 elements: mentioned elements are reflexive, 0 ~ 1 iff offered either way
fn eq_closure2(o: &[[bool; 2]; 2]) -> [[bool; 2]; 2] {
   let m0 = o[0][0] || o[0][1] || o[1][0];
   let m1 = o[1][1] || o[0][1] || o[1][0];
   let link = o[0][1] || o[1][0];
   [[m0, link], [link, m1]]
}

fn eq2_contains_body<const ITERS: usize>() {
   let mut s = Eq2::start();
   let mut offered = [[false; 2]; 2];
   let q = (any_below(2), any_below(2)); // every pair
   let (mut prev_t, mut prev_d) = (false, false);
   macro_rules! iteration {
      () => {
         if kani::any() {
            let row = (any_below(2), any_below(2));
            s.offer(row);
            offered[row.0 as usize][row.1 as usize] = true;
         }
         s.merge();
         let (t, d) = (s.in_total(&q), s.in_delta(&q));
         let c = eq_closure2(&offered);
         assert!((t || d) == c[q.0 as usize][q.1 as usize], "total + delta = equivalence closure of the offered rows");
         assert!(!(t && d), "a row is in total or in delta, not both");
         assert!(t == (prev_t || prev_d), "total' = total + delta");
         prev_t = t;
         prev_d = d;
      };
   }
   if ITERS > 0 {
      iteration!();
   }
   if ITERS > 1 {
      iteration!();
   }
   if ITERS > 2 {
      iteration!();
   }
   assert!(ITERS <= 3);
   kani::cover!(offered[0][1]);
   kani::cover!(true);
   std::mem::forget(s);
}

macro_rules! c10_harness {
   ($name:ident, $unwind:literal, $body:expr) => {
      #[kani::proof]
      #[kani::unwind($unwind)]
      #[kani::stub(std::time::Instant::now, crate::stubs::instant_now)]
      #[kani::stub(std::time::Instant::elapsed, crate::stubs::instant_elapsed)]
      #[kani::stub(std::mem::swap, crate::stubs::mem_swap)]
      #[kani::stub(alloc::alloc::realloc_nonnull, crate::stubs::realloc_is_out_of_bound)]
      #[kani::stub(std::alloc::alloc, crate::stubs::alloc_size_classes)]
      #[kani::stub(alloc::alloc::dealloc_nonnull, crate::stubs::dealloc_noop)]
      pub fn $name() { $body }
   };
}

pub mod quick {
   use super::*;
   c10_harness!(binary_contains_e2_it1, 3, eq2_contains_body::<1>());
}

pub mod wide {
   use super::*;
   c10_harness!(binary_contains_e2_it2_wide, 3, eq2_contains_body::<2>());
   c10_harness!(binary_contains_e2_it3_wide, 3, eq2_contains_body::<3>());
}
