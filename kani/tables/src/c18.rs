//! C18 — the public union-find structures of `ascent-byods-rels` agree with a reference
//! closure after any history of operations.
//!
//! Every harness runs a symbolic operation sequence of fixed length (kind and operands of each
//! step are solver variables) over a small element domain and, after every step, compares the
//! public queries at a symbolic (i.e. every) element / pair with a reference model kept in
//! plain arrays.
use ascent_byods_rels::trrel_union_find::TrRelUnionFind;
use ascent_byods_rels::uf::UnionFind;

fn any_below(n: u8) -> u8 {
   let x: u8 = kani::any();
   kani::assume(x < n);
   x
}

// ------------------------------------------------------------------ UnionFind<u8>

/// reference: class label per element (None = never added)
struct UfRef<const E: usize> {
   label: [Option<u8>; E],
}

impl<const E: usize> UfRef<E> {
   fn add(&mut self, x: u8) {
      if self.label[x as usize].is_none() {
         self.label[x as usize] = Some(x);
      }
   }
   /// loop-free (E <= 4)
   fn union(&mut self, x: u8, y: u8) {
      let (lx, ly) = (self.label[x as usize], self.label[y as usize]);
      macro_rules! relabel {
         ($i:literal) => {
            if E > $i && self.label[$i] == ly {
               self.label[$i] = lx;
            }
         };
      }
      relabel!(0);
      relabel!(1);
      relabel!(2);
      relabel!(3);
   }
   fn len(&self) -> usize {
      let mut n = 0;
      macro_rules! count {
         ($i:literal) => {
            if E > $i {
               n += self.label[$i].is_some() as usize;
            }
         };
      }
      count!(0);
      count!(1);
      count!(2);
      count!(3);
      n
   }
}

fn uf_step<const E: usize>(uf: &mut UnionFind<u8>, r: &mut UfRef<E>) {
   let kind: u8 = any_below(4);
   let (x, y) = (any_below(E as u8), any_below(E as u8));
   match kind {
      0 => {
         let was = r.label[x as usize].is_some();
         let (fresh, _id) = uf.add(x);
         assert!(fresh == !was);
         r.add(x);
      },
      1 => {
         let got = uf.find_item(&x);
         assert!(got.is_some() == r.label[x as usize].is_some());
      },
      2 => {
         let _root = uf.union_add(x, y);
         r.add(x);
         r.add(y);
         r.union(x, y);
      },
      _ => {
         // union of two ids obtained from the structure
         if let (Some(ix), Some(iy)) = (uf.find_item(&x), uf.find_item(&y)) {
            let root = unsafe { uf.union(ix, iy) };
            r.union(x, y);
            assert!(root == ix || root == iy);
         }
      },
   }
   // after every step, at every pair of elements
   let (a, b) = (any_below(E as u8), any_below(E as u8));
   let (fa, fb) = (uf.find_item(&a), uf.find_item(&b));
   assert!(fa.is_some() == r.label[a as usize].is_some());
   if let (Some(fa), Some(fb)) = (fa, fb) {
      assert!((fa == fb) == (r.label[a as usize] == r.label[b as usize]));
      // a root is its own representative
      assert!(unsafe { uf.find(fa) } == fa);
   }
   assert!(uf.len() == r.len());
   assert!(uf.is_empty() == (r.len() == 0));
}

fn uf_body<const E: usize, const OPS: usize>() {
   let mut uf = UnionFind::<u8>::default();
   let mut r = UfRef::<E> { label: [None; E] };
   if OPS > 0 {
      uf_step(&mut uf, &mut r);
   }
   if OPS > 1 {
      uf_step(&mut uf, &mut r);
   }
   if OPS > 2 {
      uf_step(&mut uf, &mut r);
   }
   if OPS > 3 {
      uf_step(&mut uf, &mut r);
   }
   assert!(OPS <= 4);
   kani::cover!(r.len() == E.min(OPS * 2));
   kani::cover!(r.len() >= 2 && r.label[0].is_some() && r.label[0] == r.label[1]); // a union happened
   kani::cover!(true);
   std::mem::forget(uf);
}

// ------------------------------------------------------------------ TrRelUnionFind<u8>
// (`union_find::EqRel` is in a private module of the crate and cannot be named from outside; it is
// exercised through the eqrel providers in C10.)

/// reference: reflexive-transitive closure of the added pairs on the mentioned elements
struct TrRef<const E: usize> {
   reach: [[bool; E]; E],
}

impl<const E: usize> TrRef<E> {
   fn add(&mut self, x: u8, y: u8) {
      let (x, y) = (x as usize, y as usize);
      self.reach[x][x] = true;
      self.reach[y][y] = true;
      let old = self.reach;
      let mut a = 0;
      while a < E {
         let mut b = 0;
         while b < E {
            if old[a][x] && old[y][b] {
               self.reach[a][b] = true;
            }
            b += 1;
         }
         a += 1;
      }
   }
   fn row_count(&self, a: usize) -> usize {
      let (mut n, mut b) = (0, 0);
      while b < E {
         n += self.reach[a][b] as usize;
         b += 1;
      }
      n
   }
   fn col_count(&self, b: usize) -> usize {
      let (mut n, mut a) = (0, 0);
      while a < E {
         n += self.reach[a][b] as usize;
         a += 1;
      }
      n
   }
   fn count(&self) -> usize {
      let (mut n, mut a) = (0, 0);
      while a < E {
         n += self.row_count(a);
         a += 1;
      }
      n
   }
}

fn tr_step<const E: usize>(rel: &mut TrRelUnionFind<u8>, r: &mut TrRef<E>, check_invariants: bool) {
   let (x, y) = (any_below(E as u8), any_below(E as u8));
   let was = r.reach[x as usize][y as usize];
   let changed = rel.add(x, y);
   r.add(x, y);
   // `add` reports whether the relation changed
   assert!(changed == !was);
   // after every step, at every pair
   let (a, b) = (any_below(E as u8), any_below(E as u8));
   let exp_ab = r.reach[a as usize][b as usize];
   assert!(rel.contains(&a, &b) == exp_ab);
   match rel.set_of(&a) {
      None => assert!(!r.reach[a as usize][a as usize]),
      Some(it) => {
         assert!(r.reach[a as usize][a as usize]);
         let (mut n, mut seen_b) = (0usize, 0usize);
         for z in it {
            assert!(r.reach[a as usize][*z as usize]);
            n += 1;
            seen_b += (*z == b) as usize;
         }
         assert!(n == r.row_count(a as usize) && seen_b == exp_ab as usize);
      },
   }
   match rel.rev_set_of(&b) {
      None => assert!(!r.reach[b as usize][b as usize]),
      Some(it) => {
         assert!(r.reach[b as usize][b as usize]);
         let (mut n, mut seen_a) = (0usize, 0usize);
         for z in it {
            assert!(r.reach[*z as usize][b as usize]);
            n += 1;
            seen_a += (*z == a) as usize;
         }
         assert!(n == r.col_count(b as usize) && seen_a == exp_ab as usize);
      },
   }
   let (mut n, mut seen_ab) = (0usize, 0usize);
   for (p, q) in rel.iter_all() {
      assert!(r.reach[*p as usize][*q as usize]);
      n += 1;
      seen_ab += (*p == a && *q == b) as usize;
   }
   assert!(seen_ab == exp_ab as usize);
   assert!(n == r.count());
   assert!(rel.count_exact() == r.count());
   if check_invariants {
      rel.assert_disjoint_invariant();
      rel.assert_set_connections_dominant_sets();
   }
}

fn tr_body<const E: usize, const OPS: usize>(check_invariants: bool) {
   let mut rel = TrRelUnionFind::<u8>::default();
   let mut r = TrRef::<E> { reach: [[false; E]; E] };
   if OPS > 0 {
      tr_step(&mut rel, &mut r, check_invariants);
   }
   if OPS > 1 {
      tr_step(&mut rel, &mut r, check_invariants);
   }
   if OPS > 2 {
      tr_step(&mut rel, &mut r, check_invariants);
   }
   if OPS > 3 {
      tr_step(&mut rel, &mut r, check_invariants);
   }
   assert!(OPS <= 4);
   kani::cover!(OPS >= 2 && r.reach[0][1] && r.reach[1][0]); // a back edge collapsed two classes
   kani::cover!(true);
   std::mem::forget(rel);
}

macro_rules! c18_harness {
   ($name:ident, $unwind:literal, $body:expr) => {
      #[kani::proof]
      #[kani::unwind($unwind)]
      #[kani::stub(std::time::Instant::now, crate::stubs::instant_now)]
      #[kani::stub(std::time::Instant::elapsed, crate::stubs::instant_elapsed)]
      #[kani::stub(std::mem::swap, crate::stubs::mem_swap)]
      #[kani::stub(alloc::alloc::realloc_nonnull, crate::stubs::realloc_is_out_of_bound)]
      #[kani::stub(std::alloc::alloc, crate::stubs::alloc_size_classes)]
      #[kani::stub(alloc::alloc::dealloc_nonnull, crate::stubs::dealloc_noop)]
      pub fn $name() { $body }
   };
}

/// two `add`s with symbolic operands, then every element is looked up
fn uf_two_adds_body() {
   let mut uf = UnionFind::<u8>::default();
   let (x, y) = (any_below(3), any_below(3));
   let (fresh_x, idx) = uf.add(x);
   let (fresh_y, idy) = uf.add(y);
   assert!(fresh_x && fresh_y == (x != y));
   assert!((idx == idy) == (x == y));
   let a = any_below(3);
   let fa = uf.find_item(&a);
   assert!(fa.is_some() == (a == x || a == y));
   assert!(uf.len() == 1 + (x != y) as usize && !uf.is_empty());
   if a == x {
      assert!(fa == Some(idx));
   }
   kani::cover!(x != y && a == y);
   kani::cover!(true);
   std::mem::forget(uf);
}

/// one `union_add` with symbolic operands, then every pair is compared
fn uf_one_union_body() {
   let mut uf = UnionFind::<u8>::default();
   let (x, y) = (any_below(3), any_below(3));
   let root = uf.union_add(x, y);
   let (a, b) = (any_below(3), any_below(3));
   let (fa, fb) = (uf.find_item(&a), uf.find_item(&b));
   assert!(fa.is_some() == (a == x || a == y));
   if let (Some(fa), Some(fb)) = (fa, fb) {
      assert!(fa == fb && fa == root);
      assert!(unsafe { uf.find(fa) } == fa);
   }
   assert!(uf.len() == 1 + (x != y) as usize);
   kani::cover!(x != y && a == x && b == y);
   kani::cover!(true);
   std::mem::forget(uf);
}

/// Quick tier: what finishes.  Measured (Kani 0.68, table capacity 4, 14 GB cap):
/// two adds 18 s; one union_add 152 s; one operation of symbolic kind + checks, or any two
/// operations: CBMC out of memory; `TrRelUnionFind` with a single `add` over 2 elements: no
/// verdict within 600 s.  The cost is in typed accesses at symbolic offsets into heap blocks
/// (`Vec<Elem<T>>`, `Vec<HashSet<T>>`), about 50 K gates each.
pub mod quick {
   use super::*;
   c18_harness!(union_find_two_adds, 2, uf_two_adds_body());
   c18_harness!(union_find_one_union, 2, uf_one_union_body());
}

/// thorough tier only; none of these produced a verdict when measured
pub mod wide {
   use super::*;
   c18_harness!(union_find_e2_ops2_wide, 2, uf_body::<2, 2>());
   c18_harness!(union_find_e3_ops3_wide, 2, uf_body::<3, 3>());
   c18_harness!(union_find_e4_ops4_wide, 3, uf_body::<4, 4>());
   c18_harness!(trrel_union_find_e2_ops1_wide, 3, tr_body::<2, 1>(true));
   c18_harness!(trrel_union_find_e3_ops3_wide, 5, tr_body::<3, 3>(true));
}
