//! C18, `UnionFind` half — ONE operation from an ARBITRARY valid state (inductive step).
//!
//! The harnesses of `c18.rs` replay operation sequences from the empty structure and only finish
//! for a single operation, which decides nothing about "any sequence of operations".  Here the
//! pre-state itself is symbolic: hook H4 (`UnionFind::verif_from_parts`, `--cfg ascent_verif`)
//! builds the real structure from arbitrary parent / next / rank / value / item-table contents,
//! the harness assumes the representation invariant `inv` below, runs one real operation with
//! symbolic operands, reads the internal state back and asserts
//!   * `inv` again (so the step composes: histories of any length stay inside `inv`),
//!   * the operation's effect on the partition of the values and its return value,
//!   * (implicitly, through Kani) that no `debug_assert!`, bounds check or `unwrap` fails.
//! `inv` is what `Elems::ok` checks, made inductive: parents form a forest whose ranks strictly
//! increase towards the root and are bounded by the class size, the `next` pointers form exactly
//! one cycle per class, values are distinct, and the item table maps every value to an id of its
//! own class.  Bound: at most `N0` <= 3 elements before the operation (<= 5 after `union_add`).
use ascent_byods_rels::uf::UnionFind;

#[derive(Clone, Copy)]
struct St<const M: usize> {
   n: usize,
   parent: [usize; M],
   next: [usize; M],
   rank: [usize; M],
   value: [u8; M],
   item: [usize; M],
   /// `root[i]`: filled by `close()` (M steps up the parent pointers)
   root: [usize; M],
}

impl<const M: usize> St<M> {
   fn new(n: usize) -> Self {
      St { n, parent: [0; M], next: [0; M], rank: [0; M], value: [0; M], item: [0; M], root: [0; M] }
   }

   /// are all pointers in range?  (must hold before `close`)
   fn in_range(&self) -> bool {
      let mut ok = self.n <= M;
      let mut i = 0;
      while i < M {
         if i < self.n {
            ok = ok && self.parent[i] < self.n && self.next[i] < self.n && self.item[i] < self.n;
         }
         i += 1;
      }
      ok
   }

   fn close(&mut self) {
      let mut i = 0;
      while i < M {
         if i < self.n {
            let mut r = i;
            let mut k = 0;
            while k < M {
               r = self.parent[r];
               k += 1;
            }
            self.root[i] = r;
         }
         i += 1;
      }
   }

   fn same(&self, i: usize, j: usize) -> bool { self.root[i] == self.root[j] }

   fn index_of(&self, v: u8) -> Option<usize> {
      let mut found = None;
      let mut i = M;
      while i > 0 {
         i -= 1;
         if i < self.n && self.value[i] == v {
            found = Some(i);
         }
      }
      found
   }

   /// the representation invariant (after `in_range` and `close`)
   fn inv(&self) -> bool {
      let n = self.n;
      let mut ok = true;
      let mut i = 0;
      while i < M {
         if i < n {
            let r = self.root[i];
            // acyclic: M steps up end in a self-loop
            ok = ok && self.parent[r] == r;
            // ranks strictly increase towards the root
            ok = ok && (self.parent[i] == i || self.rank[i] < self.rank[self.parent[i]]);
            // the circular list stays inside the class, the item table points into the class
            ok = ok && self.root[self.next[i]] == r && self.root[self.item[i]] == r;
            // members of the class (bit mask), class size; distinct values
            let (mut members, mut size) = (0u8, 0usize);
            let mut j = 0;
            while j < M {
               if j < n {
                  if self.root[j] == r {
                     members |= 1 << j;
                     size += 1;
                  }
                  ok = ok && (j == i || self.value[j] != self.value[i]);
               }
               j += 1;
            }
            // rank <= class size - 1
            ok = ok && self.rank[i] < size;
            // the cycle through `next` starting at i visits exactly the class
            let (mut orbit, mut cur, mut s) = (0u8, i, 0);
            while s < M {
               orbit |= 1 << cur;
               cur = self.next[cur];
               s += 1;
            }
            ok = ok && orbit == members;
         }
         i += 1;
      }
      ok
   }
}

fn any_state<const N0: usize, const M: usize>() -> St<M> {
   let mut st = St::<M>::new(N0);
   let mut i = 0;
   while i < M {
      if i < N0 {
         st.parent[i] = kani::any();
         st.next[i] = kani::any();
         st.rank[i] = kani::any();
         st.value[i] = kani::any();
         st.item[i] = kani::any();
         kani::assume(st.parent[i] < N0 && st.next[i] < N0 && st.item[i] < N0 && st.rank[i] < 8 && st.value[i] < 6);
      }
      i += 1;
   }
   st.close();
   kani::assume(st.inv());
   st
}

fn build<const M: usize>(st: &St<M>) -> UnionFind<u8> {
   let mut elems: [(usize, usize, usize, u8); M] = [(0, 0, 0, 0); M];
   let mut items: [(u8, usize); M] = [(0, 0); M];
   let mut i = 0;
   while i < M {
      elems[i] = (st.parent[i], st.next[i], st.rank[i], st.value[i]);
      items[i] = (st.value[i], st.item[i]);
      i += 1;
   }
   UnionFind::verif_from_parts(&elems[..st.n], &items[..st.n])
}

fn read_back<const M: usize>(uf: &UnionFind<u8>) -> St<M> {
   let n = uf.len();
   assert!(n <= M);
   assert!(uf.verif_items_len() == n);
   let mut st = St::<M>::new(n);
   let mut i = 0;
   while i < M {
      if i < n {
         let (p, nx, rk, v) = uf.verif_elem(i);
         st.parent[i] = p;
         st.next[i] = nx;
         st.rank[i] = rk;
         st.value[i] = v;
         let it = uf.verif_item(&v);
         assert!(it.is_some());
         st.item[i] = it.unwrap();
      }
      i += 1;
   }
   assert!(st.in_range());
   st.close();
   st
}

/// the old elements kept their position and value, and the new partition is the old one with the
/// classes of `ix` and `iy` merged (new elements are singletons before the merge)
fn check_partition<const M: usize>(pre: &St<M>, post: &St<M>, ix: Option<usize>, iy: Option<usize>) {
   assert!(post.inv());
   let mut i = 0;
   while i < M {
      if i < pre.n {
         assert!(post.value[i] == pre.value[i]);
      }
      let mut j = 0;
      while j < i {
         if i < post.n {
            let base = |a: usize, b: usize| a == b || (a < pre.n && b < pre.n && pre.same(a, b));
            let mut expect = base(i, j);
            if let (Some(x), Some(y)) = (ix, iy) {
               expect = expect || (base(i, x) && base(j, y)) || (base(i, y) && base(j, x));
            }
            assert!(post.same(i, j) == expect);
         }
         j += 1;
      }
      i += 1;
   }
}

fn find_item_body<const N0: usize, const M: usize>() {
   let pre = any_state::<N0, M>();
   let uf = build(&pre);
   let x: u8 = kani::any();
   kani::assume(x < 6);
   let got = uf.find_item(&x);
   let post: St<M> = read_back(&uf);
   assert!(post.n == pre.n);
   check_partition(&pre, &post, None, None);
   match pre.index_of(x) {
      None => assert!(got.is_none()),
      Some(i) => {
         let id = got.unwrap().verif_index();
         assert!(id == post.root[i] && post.parent[id] == id);
         // the item table now points at the root
         assert!(post.item[i] == id);
      },
   }
   // path halving happens (needs a chain of three)
   kani::cover!(N0 < 3 || (got.is_some() && pre.parent[pre.parent[pre.index_of(x).unwrap()]] != pre.parent[pre.index_of(x).unwrap()]));
   kani::cover!(got.is_none());
   std::mem::forget(uf);
}

fn add_body<const N0: usize, const M: usize>() {
   let pre = any_state::<N0, M>();
   let mut uf = build(&pre);
   let x: u8 = kani::any();
   kani::assume(x < 6);
   let (fresh, id) = uf.add(x);
   let id = id.verif_index();
   let post: St<M> = read_back(&uf);
   check_partition(&pre, &post, None, None);
   match pre.index_of(x) {
      Some(i) => {
         assert!(!fresh && post.n == pre.n);
         assert!(id == post.root[i] && post.parent[id] == id);
      },
      None => {
         assert!(fresh && post.n == pre.n + 1 && id == pre.n);
         assert!(post.value[id] == x && post.parent[id] == id && post.next[id] == id && post.rank[id] == 0);
      },
   }
   kani::cover!(fresh);
   kani::cover!(N0 == 0 || !fresh);
   std::mem::forget(uf);
}

fn union_add_body<const N0: usize, const M: usize>() {
   let pre = any_state::<N0, M>();
   let mut uf = build(&pre);
   let (x, y): (u8, u8) = (kani::any(), kani::any());
   kani::assume(x < 6 && y < 6);
   let root = uf.union_add(x, y).verif_index();
   let post: St<M> = read_back(&uf);
   let (ix, iy) = (post.index_of(x), post.index_of(y));
   assert!(ix.is_some() && iy.is_some());
   let fresh = pre.index_of(x).is_none() as usize + (pre.index_of(y).is_none() && y != x) as usize;
   assert!(post.n == pre.n + fresh);
   check_partition(&pre, &post, ix, iy);
   assert!(root == post.root[ix.unwrap()] && post.parent[root] == root);
   // two existing classes merged
   kani::cover!(N0 < 2 || (fresh == 0 && !pre.same(pre.index_of(x).unwrap(), pre.index_of(y).unwrap())));
   kani::cover!(fresh == 2);
   std::mem::forget(uf);
}

/// `unsafe fn union(Id, Id)` and `unsafe fn find(Id)` on ids of existing elements
fn union_ids_body<const N0: usize, const M: usize>() {
   let pre = any_state::<N0, M>();
   let uf = build(&pre);
   let (a, b): (usize, usize) = (kani::any(), kani::any());
   kani::assume(a < N0 && b < N0);
   let (ia, ib) = (ascent_byods_rels::uf::elems::Id::verif_new(a), ascent_byods_rels::uf::elems::Id::verif_new(b));
   let root = unsafe { uf.union(ia, ib) }.verif_index();
   let post: St<M> = read_back(&uf);
   assert!(post.n == pre.n);
   check_partition(&pre, &post, Some(a), Some(b));
   assert!(root == post.root[a] && post.parent[root] == root);
   let again = unsafe { uf.find(ib) }.verif_index();
   assert!(again == root);
   let post2: St<M> = read_back(&uf);
   check_partition(&post, &post2, None, None);
   kani::cover!(N0 < 2 || !pre.same(a, b));
   kani::cover!(N0 < 2 || (pre.same(a, b) && a != b));
   std::mem::forget(uf);
}

macro_rules! step_harness {
   ($name:ident, $unwind:literal, $body:expr) => {
      #[kani::proof]
      #[kani::unwind($unwind)]
      #[kani::stub(alloc::alloc::realloc_nonnull, crate::stubs::realloc_is_out_of_bound)]
      #[kani::stub(std::alloc::alloc, crate::stubs::alloc_size_classes)]
      #[kani::stub(alloc::alloc::dealloc_nonnull, crate::stubs::dealloc_noop)]
      pub fn $name() { $body }
   };
}

pub mod step {
   use super::*;
   step_harness!(find_item_from_any_state_n0, 3, find_item_body::<0, 1>());
   step_harness!(find_item_from_any_state_n1, 4, find_item_body::<1, 2>());
   step_harness!(find_item_from_any_state_n2, 5, find_item_body::<2, 3>());
   step_harness!(find_item_from_any_state_n3, 6, find_item_body::<3, 4>());
   step_harness!(add_from_any_state_n0, 3, add_body::<0, 1>());
   step_harness!(add_from_any_state_n1, 4, add_body::<1, 2>());
   step_harness!(add_from_any_state_n2, 5, add_body::<2, 3>());
   step_harness!(add_from_any_state_n3, 6, add_body::<3, 4>());
   step_harness!(union_add_from_any_state_n0, 4, union_add_body::<0, 2>());
   step_harness!(union_add_from_any_state_n1, 5, union_add_body::<1, 3>());
   step_harness!(union_add_from_any_state_n2, 6, union_add_body::<2, 4>());
   step_harness!(union_add_from_any_state_n3, 7, union_add_body::<3, 5>());
   step_harness!(union_ids_from_any_state_n1, 4, union_ids_body::<1, 2>());
   step_harness!(union_ids_from_any_state_n2, 5, union_ids_body::<2, 3>());
   step_harness!(union_ids_from_any_state_n3, 6, union_ids_body::<3, 4>());
}
