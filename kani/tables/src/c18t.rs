//! C18, `TrRelUnionFind` — the READ-ONLY queries agree with the relation encoded by ANY valid state.
//!
//! `add` (cycle collapse, transitive closing) does not get through CBMC from any state, so the
//! "after any sequence of add" half of the statement stays undecided for this structure.  What is
//! decided here: hook H5 (`TrRelUnionFind::verif_from_parts`, `--cfg ascent_verif`) builds the real
//! structure from an arbitrary symbolic state — which elements exist, the set each one lives in,
//! the (possibly stale) set id stored for it, the subsumption forest of merged sets, the
//! connection relation between dominant sets — the harness assumes the representation invariant
//! `inv` below and asserts that `contains`, `set_of`, `rev_set_of`, `iter_all` and `count_exact`
//! all answer exactly like the relation R the state encodes:
//!     R(x, y)  <=>  x and y exist  and  (set(x) == set(y)  or  set(x) -> set(y) is a connection).
//! Bound: at most 3 sets and 3 elements (a 4th value plays the element that was never added).
use ascent_byods_rels::trrel_union_find::TrRelUnionFind;

const NS: usize = 3;
const NE: usize = 3;

#[derive(Clone, Copy)]
struct St {
   n: usize,
   home: [Option<usize>; NE],
   id: [usize; NE],
   sub: [Option<usize>; NS],
   conn: [[bool; NS]; NS],
}

impl St {
   fn dom(&self, s: usize) -> usize {
      let mut d = s;
      let mut k = 0;
      while k < NS {
         if let Some(p) = self.sub[d] {
            d = p;
         }
         k += 1;
      }
      d
   }

   fn inv(&self) -> bool {
      let mut ok = self.n <= NS;
      let mut s = 0;
      while s < NS {
         if s < self.n {
            // subsumption: parent exists, no self-loop, chains end (NS steps reach a dominant set)
            if let Some(p) = self.sub[s] {
               ok = ok && p < self.n && p != s;
            }
            ok = ok && self.sub[self.dom(s)].is_none();
            // a dominant set is non-empty, a dominated one is empty
            let mut members = 0;
            let mut i = 0;
            while i < NE {
               if self.home[i] == Some(s) {
                  members += 1;
               }
               i += 1;
            }
            ok = ok && ((members == 0) == self.sub[s].is_some());
         } else {
            ok = ok && self.sub[s].is_none();
         }
         let mut t = 0;
         while t < NS {
            if self.conn[s][t] {
               // connections join existing dominant sets, are anti-symmetric and transitively closed
               ok = ok && s < self.n && t < self.n && self.sub[s].is_none() && self.sub[t].is_none();
               ok = ok && (s == t || !self.conn[t][s]);
               let mut u = 0;
               while u < NS {
                  ok = ok && (!self.conn[t][u] || self.conn[s][u]);
                  u += 1;
               }
            }
            t += 1;
         }
         s += 1;
      }
      let mut i = 0;
      while i < NE {
         if let Some(h) = self.home[i] {
            // the stored id may be stale, but its dominant set is the element's set
            ok = ok && h < self.n && self.id[i] < self.n && self.dom(self.id[i]) == h;
         }
         i += 1;
      }
      ok
   }

   fn present(&self, x: u8) -> bool { (x as usize) < NE && self.home[x as usize].is_some() }

   fn rel(&self, x: u8, y: u8) -> bool {
      if !self.present(x) || !self.present(y) {
         return false;
      }
      let (hx, hy) = (self.home[x as usize].unwrap(), self.home[y as usize].unwrap());
      hx == hy || self.conn[hx][hy]
   }

   fn size(&self) -> usize {
      let mut n = 0;
      let mut x = 0u8;
      while (x as usize) < NE {
         let mut y = 0u8;
         while (y as usize) < NE {
            if self.rel(x, y) {
               n += 1;
            }
            y += 1;
         }
         x += 1;
      }
      n
   }
}

fn any_state() -> St {
   let mut st = St { n: kani::any(), home: [None; NE], id: [0; NE], sub: [None; NS], conn: [[false; NS]; NS] };
   kani::assume(st.n <= NS);
   let mut i = 0;
   while i < NE {
      if kani::any() {
         let h: usize = kani::any();
         kani::assume(h < NS);
         st.home[i] = Some(h);
      }
      st.id[i] = kani::any();
      kani::assume(st.id[i] < NS);
      i += 1;
   }
   let mut s = 0;
   while s < NS {
      if kani::any() {
         let p: usize = kani::any();
         kani::assume(p < NS);
         st.sub[s] = Some(p);
      }
      let mut t = 0;
      while t < NS {
         st.conn[s][t] = kani::any();
         t += 1;
      }
      s += 1;
   }
   kani::assume(st.inv());
   st
}

fn build(st: &St) -> TrRelUnionFind<u8> {
   let mut members: [Option<(u8, usize)>; NE] = [None; NE];
   let mut ids: [Option<(u8, usize)>; NE] = [None; NE];
   let mut subs: [Option<(usize, usize)>; NS] = [None; NS];
   let mut conns: [Option<(usize, usize)>; NS * NS] = [None; NS * NS];
   let mut i = 0;
   while i < NE {
      if let Some(h) = st.home[i] {
         members[i] = Some((i as u8, h));
         ids[i] = Some((i as u8, st.id[i]));
      }
      i += 1;
   }
   let mut s = 0;
   while s < NS {
      if let Some(p) = st.sub[s] {
         subs[s] = Some((s, p));
      }
      let mut t = 0;
      while t < NS {
         if st.conn[s][t] {
            conns[s * NS + t] = Some((s, t));
         }
         t += 1;
      }
      s += 1;
   }
   TrRelUnionFind::verif_from_parts(st.n, &members, &ids, &subs, &conns)
}

fn any_elem() -> u8 {
   let x: u8 = kani::any();
   kani::assume(x as usize <= NE);
   x
}

fn contains_body() {
   let st = any_state();
   let tr = build(&st);
   let (x, y) = (any_elem(), any_elem());
   assert!(tr.contains(&x, &y) == st.rel(x, y));
   // a stale stored id on the right-hand side, across a connection
   kani::cover!(st.rel(x, y) && st.home[x as usize] != st.home[y as usize] && Some(st.id[y as usize]) != st.home[y as usize]);
   kani::cover!(!st.rel(x, y) && st.present(x) && st.present(y));
   std::mem::forget(tr);
}

fn set_of_body<const REV: bool>() {
   let st = any_state();
   let tr = build(&st);
   let x = any_elem();
   let mut cnt = [0u8; NE];
   let mut total = 0usize;
   let some = if REV {
      match tr.rev_set_of(&x) {
         None => false,
         Some(it) => {
            for y in it {
               assert!((*y as usize) < NE);
               cnt[*y as usize] += 1;
               total += 1;
            }
            true
         },
      }
   } else {
      match tr.set_of(&x) {
         None => false,
         Some(it) => {
            for y in it {
               assert!((*y as usize) < NE);
               cnt[*y as usize] += 1;
               total += 1;
            }
            true
         },
      }
   };
   assert!(some == st.present(x));
   let mut y = 0u8;
   while (y as usize) < NE {
      let expect = if REV { st.rel(y, x) } else { st.rel(x, y) };
      assert!(cnt[y as usize] == expect as u8);
      y += 1;
   }
   kani::cover!(total == 3);
   kani::cover!(some && total == 1);
   std::mem::forget(tr);
}

fn count_exact_body() {
   let st = any_state();
   let tr = build(&st);
   assert!(tr.count_exact() == st.size());
   kani::cover!(st.size() == 5);
   kani::cover!(st.size() == 0);
   std::mem::forget(tr);
}

fn iter_all_body() {
   let st = any_state();
   let tr = build(&st);
   let (x, y) = (any_elem(), any_elem());
   let (mut total, mut hits) = (0usize, 0usize);
   for (a, b) in tr.iter_all() {
      total += 1;
      if *a == x && *b == y {
         hits += 1;
      }
   }
   assert!(total == st.size());
   assert!(hits == st.rel(x, y) as usize);
   kani::cover!(total == 5);
   std::mem::forget(tr);
}

macro_rules! query_harness {
   ($name:ident, $unwind:literal, $body:expr) => {
      #[kani::proof]
      #[kani::unwind($unwind)]
      #[kani::stub(alloc::alloc::realloc_nonnull, crate::stubs::realloc_is_out_of_bound)]
      #[kani::stub(std::alloc::alloc, crate::stubs::alloc_size_classes)]
      #[kani::stub(alloc::alloc::dealloc_nonnull, crate::stubs::dealloc_noop)]
      pub fn $name() { $body }
   };
}

pub mod query {
   use super::*;
   query_harness!(contains_from_any_state, 6, contains_body());
   query_harness!(set_of_from_any_state, 6, set_of_body::<false>());
   query_harness!(rev_set_of_from_any_state, 6, set_of_body::<true>());
   query_harness!(count_exact_from_any_state, 6, count_exact_body());
   query_harness!(iter_all_from_any_state, 6, iter_all_body());
}
