//! C19 — the serial index building blocks of `ascent::internal` behave as multimaps / sets
//! through insert, lookup, iteration and the merge step.
//!
//! Every harness fills the three versions new / delta / total with a symbolic sequence of
//! inserts (`N` slots per version, each slot used or not, keys and values from 3 constants),
//! checks the three versions and the combined total+delta view against a count-array model,
//! performs `RelIndexMerge::merge_delta_to_total_new_to_delta` exactly as generated code does
//! (through `to_rel_index_write` where the index is reached that way), and checks
//! total' = total + delta, delta' = new, new' = empty with `index_get`, `iter_all`,
//! `contains_key`, `len_estimate`, `is_empty` for every key of the domain.
use ascent::internal::{
   LatticeIndexType, RelFullIndexRead, RelFullIndexType, RelFullIndexWrite, RelIndexCombined, RelIndexMerge,
   RelIndexRead, RelIndexReadAll, RelIndexType1, RelIndexWrite, RelNoIndexType, ToRelIndex0,
};
use ascent::rel::ToRelIndexType;

const D: usize = 3;

fn any_d() -> u8 {
   let x: u8 = kani::any();
   kani::assume((x as usize) < D);
   x
}

type Cnt = [[u8; D]; D];

fn cnt_add(a: &Cnt, b: &Cnt) -> Cnt {
   [
      [a[0][0] + b[0][0], a[0][1] + b[0][1], a[0][2] + b[0][2]],
      [a[1][0] + b[1][0], a[1][1] + b[1][1], a[1][2] + b[1][2]],
      [a[2][0] + b[2][0], a[2][1] + b[2][1], a[2][2] + b[2][2]],
   ]
}

/// number of keys with at least one value
fn cnt_keys(a: &Cnt) -> usize {
   (a[0][0] + a[0][1] + a[0][2] > 0) as usize
      + (a[1][0] + a[1][1] + a[1][2] > 0) as usize
      + (a[2][0] + a[2][1] + a[2][2] > 0) as usize
}

// ------------------------------------------------------------------ RelIndexType1 (hash-vector)
//
// The harnesses over this type are written without loops of their own (slots, lookups and
// iteration steps are spelled out), so that the unwinding bound only has to cover the loops of
// the code under test: every extra unwinding of the merge loop multiplies the formula (measured:
// the 1+1 merge takes 35 s at unwind 2 and exhausts 14 GB at unwind 4).

type Ix1 = RelIndexType1<(u8,), (u8,)>;

fn row_total(c: &Cnt, k: usize) -> u8 { c[k][0] + c[k][1] + c[k][2] }

fn row_eq(a: &[u8; D], b: &[u8; D]) -> bool { a[0] == b[0] && a[1] == b[1] && a[2] == b[2] }

/// one insert slot: used or not, key and value symbolic
fn ix1_slot(ix: &mut Ix1, cnt: &mut Cnt) {
   if kani::any() {
      let (k, v) = (any_d(), any_d());
      ix.index_insert((k,), (v,));
      cnt[k as usize][v as usize] += 1;
   }
}

fn fill_ix1<const N: usize>(ix: &mut Ix1) -> Cnt {
   let mut cnt = [[0u8; D]; D];
   if N > 0 {
      ix1_slot(ix, &mut cnt);
   }
   if N > 1 {
      ix1_slot(ix, &mut cnt);
   }
   if N > 2 {
      ix1_slot(ix, &mut cnt);
   }
   assert!(N <= 3);
   cnt
}

/// multiset of up to 4 values, without a loop
fn tally(s: &[(u8,)]) -> [u8; D] {
   let mut got = [0u8; D];
   assert!(s.len() <= 4);
   if s.len() > 0 {
      assert!((s[0].0 as usize) < D);
      got[s[0].0 as usize] += 1;
   }
   if s.len() > 1 {
      assert!((s[1].0 as usize) < D);
      got[s[1].0 as usize] += 1;
   }
   if s.len() > 2 {
      assert!((s[2].0 as usize) < D);
      got[s[2].0 as usize] += 1;
   }
   if s.len() > 3 {
      assert!((s[3].0 as usize) < D);
      got[s[3].0 as usize] += 1;
   }
   got
}

/// lookups: `ix` holds exactly the multiset `cnt`, observed at the (symbolic, i.e. every) key `q`
fn check_ix1_get(ix: &Ix1, cnt: &Cnt, q: u8) {
   let total = row_total(cnt, q as usize);
   match ix.index_get(&(q,)) {
      None => assert!(total == 0),
      Some(it) => {
         assert!(total > 0);
         assert!(row_eq(&tally(it.as_slice()), &cnt[q as usize]));
      },
   }
   let nkeys = cnt_keys(cnt);
   assert!(RelIndexRead::len_estimate(ix) == nkeys);
   assert!(RelIndexRead::is_empty(ix) == (nkeys == 0));
}

/// iteration: every key with at least one value exactly once, with exactly its values
fn check_ix1_iter(ix: &Ix1, cnt: &Cnt, q: u8) {
   let (mut seen, mut seen_q) = (0usize, 0u8);
   let mut it = ix.iter_all();
   macro_rules! step {
      () => {
         if let Some((k, vals)) = it.next() {
            assert!((k.0 as usize) < D);
            seen += 1;
            if k.0 == q {
               seen_q += 1;
            }
            assert!(row_eq(&tally(vals.as_slice()), &cnt[k.0 as usize]) && row_total(cnt, k.0 as usize) > 0);
         }
      };
   }
   step!();
   step!();
   step!();
   assert!(it.next().is_none());
   assert!(seen == cnt_keys(cnt) && seen_q == (row_total(cnt, q as usize) > 0) as u8);
}

/// the combined view of `a` and `b` is the multiset union
fn check_combined_ix1(a: &Ix1, ca: &Cnt, b: &Ix1, cb: &Cnt, q: u8) {
   let comb = RelIndexCombined::new(a, b);
   let sum = cnt_add(ca, cb);
   let total = row_total(&sum, q as usize);
   match comb.index_get(&(q,)) {
      None => assert!(total == 0),
      Some(mut it) => {
         assert!(total > 0);
         let mut got = [0u8; D];
         macro_rules! step {
            () => {
               if let Some(v) = it.next() {
                  assert!((v.0 as usize) < D);
                  got[v.0 as usize] += 1;
               }
            };
         }
         step!();
         step!();
         step!();
         step!();
         assert!(it.next().is_none());
         assert!(row_eq(&got, &sum[q as usize]));
      },
   }
   assert!(comb.len_estimate() == cnt_keys(ca) + cnt_keys(cb));
   assert!(comb.is_empty() == (cnt_keys(ca) + cnt_keys(cb) == 0));
   let (mut seen, mut seen_q, mut vals_q) = (0usize, 0u8, 0usize);
   let mut it = comb.iter_all();
   macro_rules! step {
      () => {
         if let Some((k, vals)) = it.next() {
            assert!((k.0 as usize) < D);
            seen += 1;
            let n = vals.len();
            assert!(n > 0);
            if k.0 == q {
               seen_q += 1;
               vals_q += n;
            }
         }
      };
   }
   step!();
   step!();
   step!();
   step!();
   assert!(it.next().is_none());
   assert!(seen == cnt_keys(ca) + cnt_keys(cb));
   assert!(seen_q == (row_total(ca, q as usize) > 0) as u8 + (row_total(cb, q as usize) > 0) as u8);
   assert!(vals_q == total as usize);
}

const OBS_GET: u8 = 0;
const OBS_ITER: u8 = 1;
const OBS_COMBINED: u8 = 2;

/// `NN`/`ND`/`NT` insert slots for new/delta/total (at most 4 values in total); `OBS` selects
/// what is observed after the merge.
fn ix1_body<const NN: usize, const ND: usize, const NT: usize, const OBS: u8>(through_to_rel_index: bool) -> Ix1Obs {
   let (mut new, mut delta, mut total) = (Ix1::default(), Ix1::default(), Ix1::default());
   let cn = fill_ix1::<NN>(&mut new);
   let cd = fill_ix1::<ND>(&mut delta);
   let ct = fill_ix1::<NT>(&mut total);
   let q = any_d(); // every key
   let (dl, tl) = (delta.len(), total.len());
   let (mut wn, mut wd, mut wt) = (ToRelIndexType(new), ToRelIndexType(delta), ToRelIndexType(total));
   if through_to_rel_index {
      // the route generated code takes for `ascent::rel::ToRelIndexType`
      let (mut un, mut ud, mut ut) = ((), (), ());
      RelIndexMerge::init(
         &mut wn.to_rel_index_write(&mut un),
         &mut wd.to_rel_index_write(&mut ud),
         &mut wt.to_rel_index_write(&mut ut),
      );
      RelIndexMerge::merge_delta_to_total_new_to_delta(
         &mut wn.to_rel_index_write(&mut un),
         &mut wd.to_rel_index_write(&mut ud),
         &mut wt.to_rel_index_write(&mut ut),
      );
   } else {
      RelIndexMerge::merge_delta_to_total_new_to_delta(&mut wn.0, &mut wd.0, &mut wt.0);
   }
   let (un, ud, ut) = ((), (), ());
   let (new, delta, total): (&Ix1, &Ix1, &Ix1) = if through_to_rel_index {
      (wn.to_rel_index(&un), wd.to_rel_index(&ud), wt.to_rel_index(&ut))
   } else {
      (&wn.0, &wd.0, &wt.0)
   };
   let ct2 = cnt_add(&ct, &cd);
   if OBS == OBS_GET {
      check_ix1_get(total, &ct2, q);
      if NN > 0 {
         check_ix1_get(delta, &cn, q);
      } else {
         assert!(delta.is_empty());
      }
      assert!(new.is_empty());
   }
   if OBS == OBS_ITER {
      check_ix1_iter(total, &ct2, q);
      if NN > 0 {
         check_ix1_iter(delta, &cn, q);
      } else {
         assert!(delta.iter_all().next().is_none());
      }
      assert!(new.iter_all().next().is_none());
   }
   if OBS == OBS_COMBINED {
      check_combined_ix1(total, &ct2, delta, &cn, q);
   }
   std::mem::forget((wn, wd, wt));
   Ix1Obs { dl, tl, cd, ct }
}

/// what the vacuity witnesses of a harness may refer to
pub struct Ix1Obs {
   dl: usize,
   tl: usize,
   cd: Cnt,
   ct: Cnt,
}

impl Ix1Obs {
   fn delta_larger(&self) -> bool { self.dl > self.tl }
   fn total_larger(&self) -> bool { self.dl < self.tl }
   /// a key present on both sides: the per-key vectors are appended
   fn append(&self) -> bool { row_total(&self.cd, 0) > 0 && row_total(&self.ct, 0) > 0 }
   /// a key of the smaller side missing from the larger: vacant insert
   fn vacant(&self) -> bool { row_total(&self.cd, 0) > 0 && row_total(&self.ct, 0) == 0 && row_total(&self.ct, 1) > 0 }
   fn delta_vec_longer(&self) -> bool { row_total(&self.cd, 0) > row_total(&self.ct, 0) && row_total(&self.ct, 0) > 0 }
   fn total_vec_longer(&self) -> bool { row_total(&self.cd, 0) < row_total(&self.ct, 0) && row_total(&self.cd, 0) > 0 }
}

macro_rules! ix1_harness {
   ($name:ident, $nn:literal, $nd:literal, $nt:literal, $obs:ident, $route:literal, $unwind:literal, [$($cover:ident),*]) => {
      #[kani::proof]
      #[kani::unwind($unwind)]
      #[kani::stub(std::time::Instant::now, crate::stubs::instant_now)]
      #[kani::stub(std::time::Instant::elapsed, crate::stubs::instant_elapsed)]
      #[kani::stub(std::mem::swap, crate::stubs::mem_swap)]
      #[kani::stub(alloc::alloc::realloc_nonnull, crate::stubs::realloc_is_out_of_bound)]
      pub fn $name() {
         let o = ix1_body::<$nn, $nd, $nt, $obs>($route);
         $( kani::cover!(o.$cover()); )*
         let _ = &o;
         kani::cover!(true);
      }
   };
}


/// insert / lookup / iteration without a merge, 3 insert slots
fn ix1_insert_lookup_body() {
   let mut ix = Ix1::default();
   let c = fill_ix1::<3>(&mut ix);
   let q = any_d();
   check_ix1_get(&ix, &c, q);
   check_ix1_iter(&ix, &c, q);
   kani::cover!(row_total(&c, q as usize) == 3);
   kani::cover!(cnt_keys(&c) == 3);
   kani::cover!(true);
   std::mem::forget(ix);
}

/// the combined view before any merge (tables filled by inserts only)
fn ix1_combined_body() {
   let (mut delta, mut total) = (Ix1::default(), Ix1::default());
   let cd = fill_ix1::<2>(&mut delta);
   let ct = fill_ix1::<2>(&mut total);
   let q = any_d();
   check_combined_ix1(&total, &ct, &delta, &cd, q);
   kani::cover!(row_total(&cd, q as usize) > 0 && row_total(&ct, q as usize) > 0);
   kani::cover!(true);
   std::mem::forget((total, delta));
}

// ------------------------------------------------------------------ RelFullIndexType<(u8,u8),()>

type Full2 = RelFullIndexType<(u8, u8), ()>;
type Set2 = [[bool; D]; D];

/// one insert slot, filled with `index_insert` or `insert_if_not_present` (symbolic choice)
fn full2_slot(ix: &mut Full2, set: &mut Set2) {
   if kani::any() {
      let (a, b) = (any_d(), any_d());
      if kani::any() {
         ix.index_insert((a, b), ());
      } else {
         let fresh = ix.insert_if_not_present(&(a, b), ());
         assert!(fresh == !set[a as usize][b as usize]);
      }
      set[a as usize][b as usize] = true;
   }
}

fn fill_full2<const N: usize>(ix: &mut Full2) -> Set2 {
   let mut set = [[false; D]; D];
   if N > 0 {
      full2_slot(ix, &mut set);
   }
   if N > 1 {
      full2_slot(ix, &mut set);
   }
   assert!(N <= 2);
   set
}

fn set2_len(s: &Set2) -> usize {
   s[0][0] as usize + s[0][1] as usize + s[0][2] as usize
      + s[1][0] as usize + s[1][1] as usize + s[1][2] as usize
      + s[2][0] as usize + s[2][1] as usize + s[2][2] as usize
}

fn set2_union(x: &Set2, y: &Set2) -> Set2 {
   [
      [x[0][0] || y[0][0], x[0][1] || y[0][1], x[0][2] || y[0][2]],
      [x[1][0] || y[1][0], x[1][1] || y[1][1], x[1][2] || y[1][2]],
      [x[2][0] || y[2][0], x[2][1] || y[2][1], x[2][2] || y[2][2]],
   ]
}

/// `ix` is exactly `set`, observed at the (symbolic, i.e. every) key `q`
fn check_full2(ix: &Full2, set: &Set2, q: (u8, u8)) {
   let present = set[q.0 as usize][q.1 as usize];
   assert!(RelFullIndexRead::contains_key(ix, &q) == present);
   match ix.index_get(&q) {
      None => assert!(!present),
      Some(mut it) => {
         assert!(present);
         assert!(it.next().is_some() && it.next().is_none());
      },
   }
   let n = set2_len(set);
   assert!(RelIndexRead::len_estimate(ix) == n);
   assert!(RelIndexRead::is_empty(ix) == (n == 0));
   let (mut seen_q, mut seen) = (0u8, 0usize);
   let mut it = ix.iter_all();
   macro_rules! step {
      () => {
         if let Some((k, mut vals)) = it.next() {
            assert!((k.0 as usize) < D && (k.1 as usize) < D && set[k.0 as usize][k.1 as usize]);
            seen += 1;
            if *k == q {
               seen_q += 1;
            }
            assert!(vals.next().is_some() && vals.next().is_none());
         }
      };
   }
   step!();
   step!();
   step!();
   step!();
   assert!(it.next().is_none());
   assert!(seen == n && seen_q == present as u8);
}

fn check_combined_full2(x: &Full2, sx: &Set2, y: &Full2, sy: &Set2, q: (u8, u8)) {
   let comb = RelIndexCombined::new(x, y);
   let n = (sx[q.0 as usize][q.1 as usize] as usize) + (sy[q.0 as usize][q.1 as usize] as usize);
   match comb.index_get(&q) {
      None => assert!(n == 0),
      Some(mut it) => {
         let c = it.next().is_some() as usize + it.next().is_some() as usize + it.next().is_some() as usize;
         assert!(n > 0 && c == n);
      },
   }
   assert!(comb.len_estimate() == set2_len(sx) + set2_len(sy));
   assert!(comb.is_empty() == (set2_len(sx) + set2_len(sy) == 0));
   let (mut seen_q, mut seen) = (0usize, 0usize);
   let mut it = comb.iter_all();
   macro_rules! step {
      () => {
         if let Some((k, _vals)) = it.next() {
            assert!(sx[k.0 as usize][k.1 as usize] || sy[k.0 as usize][k.1 as usize]);
            seen += 1;
            if *k == q {
               seen_q += 1;
            }
         }
      };
   }
   step!();
   step!();
   step!();
   step!();
   step!();
   step!();
   assert!(it.next().is_none());
   assert!(seen == set2_len(sx) + set2_len(sy) && seen_q == n);
}

/// `NN`/`ND`/`NT` insert slots (each <= 2) for new/delta/total
fn full2_body<const NN: usize, const ND: usize, const NT: usize>() {
   let (mut new, mut delta, mut total) = (Full2::default(), Full2::default(), Full2::default());
   let sn = fill_full2::<NN>(&mut new);
   let sd = fill_full2::<ND>(&mut delta);
   let st = fill_full2::<NT>(&mut total);
   let q = (any_d(), any_d()); // every key
   check_combined_full2(&total, &st, &delta, &sd, q);
   let (dl, tl) = (delta.len(), total.len());
   let (mut un, mut ud, mut ut) = ((), (), ());
   RelIndexMerge::merge_delta_to_total_new_to_delta(
      &mut new.to_rel_index_write(&mut un),
      &mut delta.to_rel_index_write(&mut ud),
      &mut total.to_rel_index_write(&mut ut),
   );
   let st2 = set2_union(&st, &sd);
   check_full2(&total, &st2, q);
   check_full2(&delta, &sn, q);
   check_full2(&new, &[[false; D]; D], q);
   check_combined_full2(&total, &st2, &delta, &sn, q);
   // insert-if-absent on the merged total
   let (a, b) = (any_d(), any_d());
   let before = total.len();
   kani::assume(before < 4); // room for one more entry in the table model
   let fresh = total.insert_if_not_present(&(a, b), ());
   assert!(fresh == !st2[a as usize][b as usize]);
   assert!(RelFullIndexRead::contains_key(&total, &(a, b)));
   assert!(total.len() == before + fresh as usize);
   kani::cover!(dl > tl);
   kani::cover!(dl < tl);
   kani::cover!(dl == tl && dl > 0);
   kani::cover!(set2_len(&st2) < dl + tl); // delta and total overlapped
   kani::cover!(fresh);
   kani::cover!(true);
   std::mem::forget((new, delta, total));
}

macro_rules! table_harness {
   ($name:ident, $unwind:literal, $body:expr) => {
      #[kani::proof]
      #[kani::unwind($unwind)]
      #[kani::stub(std::time::Instant::now, crate::stubs::instant_now)]
      #[kani::stub(std::time::Instant::elapsed, crate::stubs::instant_elapsed)]
      #[kani::stub(std::mem::swap, crate::stubs::mem_swap)]
      #[kani::stub(alloc::alloc::realloc_nonnull, crate::stubs::realloc_is_out_of_bound)]
      pub fn $name() { $body }
   };
}


// ------------------------------------------------------------------ RelFullIndexType<(u8,),usize>
// (the key index of a lattice relation: key -> row number)

type Full1 = RelFullIndexType<(u8,), usize>;
type Map1 = [Option<usize>; D];

fn full1_slot(ix: &mut Full1, m: &mut Map1) {
   if kani::any() {
      let (k, v) = (any_d(), any_d() as usize);
      if kani::any() {
         ix.index_insert((k,), v); // overwrites
         m[k as usize] = Some(v);
      } else {
         let fresh = ix.insert_if_not_present(&(k,), v);
         assert!(fresh == m[k as usize].is_none());
         if fresh {
            m[k as usize] = Some(v);
         }
      }
   }
}

fn map1_len(m: &Map1) -> usize { m[0].is_some() as usize + m[1].is_some() as usize + m[2].is_some() as usize }

/// `ix` has exactly the keys of `a` or `b`; a key maps to its value in `a` or in `b`
fn check_full1(ix: &Full1, a: &Map1, b: &Map1, q: u8) {
   let (va, vb) = (a[q as usize], b[q as usize]);
   let present = va.is_some() || vb.is_some();
   assert!(RelFullIndexRead::contains_key(ix, &(q,)) == present);
   match ix.index_get(&(q,)) {
      None => assert!(!present),
      Some(mut it) => {
         let v = it.next();
         assert!(present && v.is_some() && it.next().is_none());
         let v = *v.unwrap();
         assert!(Some(v) == va || Some(v) == vb);
      },
   }
   let n = (a[0].is_some() || b[0].is_some()) as usize
      + (a[1].is_some() || b[1].is_some()) as usize
      + (a[2].is_some() || b[2].is_some()) as usize;
   assert!(RelIndexRead::len_estimate(ix) == n);
   assert!(RelIndexRead::is_empty(ix) == (n == 0));
   let (mut seen_q, mut seen) = (0u8, 0usize);
   let mut it = ix.iter_all();
   macro_rules! step {
      () => {
         if let Some((k, mut vals)) = it.next() {
            assert!((k.0 as usize) < D);
            seen += 1;
            if k.0 == q {
               seen_q += 1;
            }
            let v = vals.next();
            assert!(v.is_some() && vals.next().is_none());
            let v = *v.unwrap();
            assert!(Some(v) == a[k.0 as usize] || Some(v) == b[k.0 as usize]);
         }
      };
   }
   step!();
   step!();
   step!();
   assert!(it.next().is_none());
   assert!(seen == n && seen_q == present as u8);
}

fn full1_body() {
   let (mut new, mut delta, mut total) = (Full1::default(), Full1::default(), Full1::default());
   let (mut mn, mut md, mut mt): (Map1, Map1, Map1) = ([None; D], [None; D], [None; D]);
   full1_slot(&mut new, &mut mn);
   full1_slot(&mut new, &mut mn);
   full1_slot(&mut delta, &mut md);
   full1_slot(&mut delta, &mut md);
   full1_slot(&mut total, &mut mt);
   full1_slot(&mut total, &mut mt);
   let q = any_d();
   let (dl, tl) = (delta.len(), total.len());
   RelIndexMerge::merge_delta_to_total_new_to_delta(&mut new, &mut delta, &mut total);
   check_full1(&total, &mt, &md, q);
   check_full1(&delta, &mn, &[None; D], q);
   check_full1(&new, &[None; D], &[None; D], q);
   assert!(RelIndexCombined::new(&total, &delta).len_estimate() == total.len() + map1_len(&mn));
   kani::cover!(dl > tl);
   kani::cover!(dl < tl);
   kani::cover!(md[0].is_some() && mt[0].is_some() && md[0] != mt[0]); // same key, different rows
   kani::cover!(true);
   std::mem::forget((new, delta, total));
}


// ------------------------------------------------------------------ LatticeIndexType<(u8,),usize>

type Lat = LatticeIndexType<(u8,), usize>;
type LatSet = [[bool; D]; D]; // key x value

fn lat_slot(ix: &mut Lat, s: &mut LatSet) {
   if kani::any() {
      let (k, v) = (any_d(), any_d());
      ix.index_insert((k,), v as usize);
      s[k as usize][v as usize] = true;
   }
}

fn lat_keys(s: &LatSet) -> usize {
   (s[0][0] || s[0][1] || s[0][2]) as usize + (s[1][0] || s[1][1] || s[1][2]) as usize + (s[2][0] || s[2][1] || s[2][2]) as usize
}

fn check_lat(ix: &Lat, s: &LatSet, q: u8) {
   let row = s[q as usize];
   let present = row[0] || row[1] || row[2];
   match ix.index_get(&(q,)) {
      None => assert!(!present),
      Some(mut it) => {
         assert!(present);
         let mut got = [0u8; D];
         macro_rules! step {
            () => {
               if let Some(v) = it.next() {
                  assert!(*v < D);
                  got[*v] += 1;
               }
            };
         }
         step!();
         step!();
         step!();
         assert!(it.next().is_none());
         assert!(got[0] == row[0] as u8 && got[1] == row[1] as u8 && got[2] == row[2] as u8);
      },
   }
   let n = lat_keys(s);
   assert!(RelIndexRead::len_estimate(ix) == n);
   assert!(RelIndexRead::is_empty(ix) == (n == 0));
   let (mut seen_q, mut seen) = (0u8, 0usize);
   let mut it = ix.iter_all();
   macro_rules! kstep {
      () => {
         if let Some((k, vals)) = it.next() {
            assert!((k.0 as usize) < D);
            seen += 1;
            if k.0 == q {
               seen_q += 1;
            }
            let r = s[k.0 as usize];
            assert!(vals.len() == r[0] as usize + r[1] as usize + r[2] as usize && vals.len() > 0);
         }
      };
   }
   kstep!();
   kstep!();
   kstep!();
   assert!(it.next().is_none());
   assert!(seen == n && seen_q == present as u8);
}

fn lat_body() {
   let (mut new, mut delta, mut total) = (Lat::default(), Lat::default(), Lat::default());
   let (mut sn, mut sd, mut st): (LatSet, LatSet, LatSet) = ([[false; D]; D], [[false; D]; D], [[false; D]; D]);
   lat_slot(&mut new, &mut sn);
   lat_slot(&mut delta, &mut sd);
   lat_slot(&mut delta, &mut sd);
   lat_slot(&mut total, &mut st);
   lat_slot(&mut total, &mut st);
   let q = any_d();
   RelIndexMerge::merge_delta_to_total_new_to_delta(&mut new, &mut delta, &mut total);
   check_lat(&total, &set2_union(&st, &sd), q);
   check_lat(&delta, &sn, q);
   check_lat(&new, &[[false; D]; D], q);
   kani::cover!(sd[0][0] && st[0][1]); // same key, the sets are united
   kani::cover!(sd[0][0] && st[0][0]); // same key, same row number
   kani::cover!(lat_keys(&sd) == 2 && lat_keys(&st) == 1);
   kani::cover!(true);
   std::mem::forget((new, delta, total));
}


// ------------------------------------------------------------------ RelNoIndexType

fn no_index_body() {
   let (mut new, mut delta, mut total): (RelNoIndexType, RelNoIndexType, RelNoIndexType) =
      (Vec::with_capacity(4), Vec::with_capacity(4), Vec::with_capacity(4));
   let vals: [usize; 6] = kani::any();
   let used: [bool; 6] = kani::any();
   macro_rules! slot {
      ($ix:ident, $i:literal) => {
         if used[$i] {
            $ix.index_insert((), vals[$i]);
         }
      };
   }
   slot!(new, 0);
   slot!(new, 1);
   slot!(delta, 2);
   slot!(delta, 3);
   slot!(total, 4);
   slot!(total, 5);
   RelIndexMerge::merge_delta_to_total_new_to_delta(&mut new, &mut delta, &mut total);
   // total' = total ++ delta
   let exp_t = used[4] as usize + used[5] as usize + used[2] as usize + used[3] as usize;
   assert!(total.len() == exp_t && new.is_empty());
   let mut i = 0;
   macro_rules! expect {
      ($ix:ident, $j:literal) => {
         if used[$j] {
            assert!($ix[i] == vals[$j]);
            i += 1;
         }
      };
   }
   expect!(total, 4);
   expect!(total, 5);
   expect!(total, 2);
   expect!(total, 3);
   // delta' = new
   assert!(delta.len() == used[0] as usize + used[1] as usize);
   i = 0;
   expect!(delta, 0);
   expect!(delta, 1);
   let _ = i;
   kani::cover!(exp_t == 4 && delta.len() == 2);
   kani::cover!(true);
   std::mem::forget((new, delta, total));
}


// ------------------------------------------------------------------ RelIndexType1 buckets that grow

type Ix1U = RelIndexType1<(u8,), usize>;

/// One key present in delta (`ND` rows) and in total (`NT` rows), merged as generated code does.
/// The shapes are concrete (so `Vec` growth is a reallocation of known size and the harness does
/// not need the "no growth" bound of the others); the row numbers are symbolic.  total' must hold
/// all `ND + NT` rows under the key, with the same sum and xor of row numbers, and delta' is empty.
fn bucket_growth_body<const ND: usize, const NT: usize>() {
   let (mut new, mut delta, mut total) = (Ix1U::default(), Ix1U::default(), Ix1U::default());
   let vals: [usize; 6] = kani::any();
   kani::assume(vals[0] < 64 && vals[1] < 64 && vals[2] < 64 && vals[3] < 64 && vals[4] < 64 && vals[5] < 64);
   assert!(ND + NT <= 6);
   macro_rules! put {
      ($i:literal) => {
         if $i < NT {
            total.index_insert((0,), vals[$i]);
         } else if $i < NT + ND {
            delta.index_insert((0,), vals[$i]);
         }
      };
   }
   put!(0);
   put!(1);
   put!(2);
   put!(3);
   put!(4);
   put!(5);
   RelIndexMerge::merge_delta_to_total_new_to_delta(&mut new, &mut delta, &mut total);
   let bucket = total.get(&(0u8,)).unwrap();
   assert!(bucket.len() == ND + NT);
   let (mut s2, mut x2, mut sum, mut xor) = (0usize, 0usize, 0usize, 0usize);
   macro_rules! see {
      ($i:literal) => {
         if $i < ND + NT {
            s2 += bucket[$i];
            x2 ^= bucket[$i];
            sum += vals[$i];
            xor ^= vals[$i];
         }
      };
   }
   see!(0);
   see!(1);
   see!(2);
   see!(3);
   see!(4);
   see!(5);
   assert!(s2 == sum && x2 == xor);
   assert!(delta.is_empty() && new.is_empty());
   kani::cover!(true);
   std::mem::forget((new, delta, total));
}

#[macro_export]
macro_rules! growth_harness {
   ($name:ident, $unwind:literal, $body:expr) => {
      #[kani::proof]
      #[kani::unwind($unwind)]
      #[kani::stub(std::time::Instant::now, crate::stubs::instant_now)]
      #[kani::stub(std::time::Instant::elapsed, crate::stubs::instant_elapsed)]
      #[kani::stub(std::mem::swap, crate::stubs::mem_swap)]
      #[kani::stub(std::alloc::alloc, crate::stubs::alloc_size_classes)]
      #[kani::stub(alloc::alloc::realloc_nonnull, crate::stubs::realloc_size_classes)]
      #[kani::stub(alloc::alloc::dealloc_nonnull, crate::stubs::dealloc_noop)]
      pub fn $name() { $body }
   };
}

// ------------------------------------------------------------------ harnesses

/// quick tier: every type at the smallest bound that reaches each mechanism
pub mod quick {
   use super::*;
   table_harness!(full_index_unit_merge, 3, full2_body::<2, 2, 2>());
   table_harness!(full_index_usize_merge, 3, full1_body());
   table_harness!(lattice_index_merge, 3, lat_body());
   table_harness!(no_index_merge, 7, no_index_body());
   table_harness!(rel_index_type1_insert_lookup, 2, ix1_insert_lookup_body());
   table_harness!(rel_index_type1_combined, 2, ix1_combined_body());
   // the merge loop runs at most once (unwind 2)
   ix1_harness!(rel_index_type1_merge_get_d1_t1, 0, 1, 1, OBS_GET, false, 2, [append, vacant]);
   ix1_harness!(rel_index_type1_merge_iter_d1_t1, 0, 1, 1, OBS_ITER, false, 2, [append, vacant]);
   ix1_harness!(rel_index_type1_merge_new_to_delta, 2, 0, 0, OBS_GET, false, 2, []);
   ix1_harness!(to_rel_index_type_merge_get_d1_t1, 1, 1, 1, OBS_GET, true, 2, [append, vacant]);
}

/// buckets beyond the first allocation (capacity 4 for `usize` rows): delta longer / shorter than total,
/// growth needed in the receiving bucket or not
pub mod growth {
   use super::*;
   growth_harness!(bucket_growth_d5_t1, 3, bucket_growth_body::<5, 1>());
   growth_harness!(bucket_growth_d1_t5, 3, bucket_growth_body::<1, 5>());
   growth_harness!(bucket_growth_d3_t2, 3, bucket_growth_body::<3, 2>());
   growth_harness!(bucket_growth_d2_t3, 3, bucket_growth_body::<2, 3>());
   growth_harness!(bucket_growth_d4_t2, 3, bucket_growth_body::<4, 2>());
   growth_harness!(bucket_growth_d2_t4, 3, bucket_growth_body::<2, 4>());
}

/// thorough tier only
pub mod wide {
   use super::*;
   ix1_harness!(rel_index_type1_merge_combined_d1_t1_wide, 1, 1, 1, OBS_COMBINED, false, 2, [append]);
   // both outcomes of the size-based swap and of the per-key vector swap need 2 entries against 1;
   // measured: no verdict within 900 s (Kani 0.68, 8 parallel jobs) -- reported as inconclusive
   ix1_harness!(rel_index_type1_merge_get_d2_t1_wide, 0, 2, 1, OBS_GET, false, 2, [delta_larger, delta_vec_longer]);
   ix1_harness!(rel_index_type1_merge_get_d1_t2_wide, 0, 1, 2, OBS_GET, false, 2, [total_larger, total_vec_longer]);
}
