//! C19 — the serial index building blocks of `ascent::internal` behave as multimaps / sets
//! through insert, lookup, iteration and the merge step.
//!
//! Every harness fills the three versions new / delta / total with a symbolic sequence of
//! inserts (`N` slots per version, each slot used or not, keys and values from 3 constants),
//! checks the three versions and the combined total+delta view against a count-array model,
//! performs `RelIndexMerge::merge_delta_to_total_new_to_delta` exactly as generated code does
//! (through `to_rel_index_write` where the index is reached that way), and checks
//! total' = total + delta, delta' = new, new' = empty with `index_get`, `iter_all`,
//! `contains_key`, `len_estimate`, `is_empty` for every key of the domain.
use ascent::internal::{
   LatticeIndexType, RelFullIndexRead, RelFullIndexType, RelFullIndexWrite, RelIndexCombined, RelIndexMerge,
   RelIndexRead, RelIndexReadAll, RelIndexType1, RelIndexWrite, RelNoIndexType, ToRelIndex0,
};
use ascent::rel::ToRelIndexType;

const D: usize = 3;

fn any_d() -> u8 {
   let x: u8 = kani::any();
   kani::assume((x as usize) < D);
   x
}

type Cnt = [[u8; D]; D];

fn cnt_add(a: &Cnt, b: &Cnt) -> Cnt {
   let mut r = [[0u8; D]; D];
   for k in 0..D {
      for v in 0..D {
         r[k][v] = a[k][v] + b[k][v];
      }
   }
   r
}

fn cnt_keys(a: &Cnt) -> usize {
   let mut n = 0;
   for k in 0..D {
      if a[k][0] + a[k][1] + a[k][2] > 0 {
         n += 1;
      }
   }
   n
}

// ------------------------------------------------------------------ RelIndexType1 (hash-vector)

type Ix1 = RelIndexType1<(u8,), (u8,)>;

fn fill_ix1<const N: usize>(ix: &mut Ix1) -> Cnt {
   let mut cnt = [[0u8; D]; D];
   for _ in 0..N {
      if kani::any() {
         let (k, v) = (any_d(), any_d());
         ix.index_insert((k,), (v,));
         cnt[k as usize][v as usize] += 1;
      }
   }
   cnt
}

fn row_total(c: &Cnt, k: usize) -> u8 { c[k][0] + c[k][1] + c[k][2] }

fn row_eq(a: &[u8; D], b: &[u8; D]) -> bool { a[0] == b[0] && a[1] == b[1] && a[2] == b[2] }

/// lookups: `ix` holds exactly the multiset `cnt`, observed at the (symbolic, i.e. every) key `q`
fn check_ix1_get(ix: &Ix1, cnt: &Cnt, q: u8) {
   let total = row_total(cnt, q as usize);
   match ix.index_get(&(q,)) {
      None => assert!(total == 0),
      Some(it) => {
         assert!(total > 0);
         let mut got = [0u8; D];
         for v in it {
            assert!((v.0 as usize) < D);
            got[v.0 as usize] += 1;
         }
         assert!(row_eq(&got, &cnt[q as usize]));
      },
   }
   let nkeys = cnt_keys(cnt);
   assert!(RelIndexRead::len_estimate(ix) == nkeys);
   assert!(RelIndexRead::is_empty(ix) == (nkeys == 0));
}

/// iteration: every key with at least one value exactly once, with exactly its values
fn check_ix1_iter(ix: &Ix1, cnt: &Cnt, q: u8) {
   let (mut seen, mut seen_q) = (0usize, 0u8);
   for (k, vals) in ix.iter_all() {
      assert!((k.0 as usize) < D);
      seen += 1;
      if k.0 == q {
         seen_q += 1;
      }
      let mut got = [0u8; D];
      for v in vals {
         assert!((v.0 as usize) < D);
         got[v.0 as usize] += 1;
      }
      assert!(row_eq(&got, &cnt[k.0 as usize]) && row_total(cnt, k.0 as usize) > 0);
   }
   assert!(seen == cnt_keys(cnt) && seen_q == (row_total(cnt, q as usize) > 0) as u8);
}

/// the combined view of `a` and `b` is the multiset union
fn check_combined_ix1(a: &Ix1, ca: &Cnt, b: &Ix1, cb: &Cnt, q: u8) {
   let comb = RelIndexCombined::new(a, b);
   let sum = cnt_add(ca, cb);
   let total = row_total(&sum, q as usize);
   match comb.index_get(&(q,)) {
      None => assert!(total == 0),
      Some(it) => {
         assert!(total > 0);
         let mut got = [0u8; D];
         for v in it {
            got[v.0 as usize] += 1;
         }
         assert!(row_eq(&got, &sum[q as usize]));
      },
   }
   assert!(comb.len_estimate() == cnt_keys(ca) + cnt_keys(cb));
   assert!(comb.is_empty() == (cnt_keys(ca) + cnt_keys(cb) == 0));
   let (mut seen, mut seen_q, mut vals_q) = (0usize, 0u8, 0usize);
   for (k, vals) in comb.iter_all() {
      assert!((k.0 as usize) < D);
      seen += 1;
      let n = vals.len();
      assert!(n > 0);
      if k.0 == q {
         seen_q += 1;
         vals_q += n;
      }
   }
   assert!(seen == cnt_keys(ca) + cnt_keys(cb));
   assert!(seen_q == (row_total(ca, q as usize) > 0) as u8 + (row_total(cb, q as usize) > 0) as u8);
   assert!(vals_q == total as usize);
}

const OBS_GET: u8 = 0;
const OBS_ITER: u8 = 1;
const OBS_COMBINED: u8 = 2;

/// `NN`/`ND`/`NT` insert slots for new/delta/total; `OBS` selects what is observed after the
/// merge (one observation per harness keeps each solver query inside the memory cap).
fn ix1_body<const NN: usize, const ND: usize, const NT: usize, const OBS: u8>(through_to_rel_index: bool) {
   let (mut new, mut delta, mut total) = (Ix1::default(), Ix1::default(), Ix1::default());
   let cn = fill_ix1::<NN>(&mut new);
   let cd = fill_ix1::<ND>(&mut delta);
   let ct = fill_ix1::<NT>(&mut total);
   let q = any_d(); // every key
   let (dl, tl) = (delta.len(), total.len());
   let (mut wn, mut wd, mut wt) = (ToRelIndexType(new), ToRelIndexType(delta), ToRelIndexType(total));
   if through_to_rel_index {
      // the route generated code takes for `ascent::rel::ToRelIndexType`
      let (mut un, mut ud, mut ut) = ((), (), ());
      RelIndexMerge::init(
         &mut wn.to_rel_index_write(&mut un),
         &mut wd.to_rel_index_write(&mut ud),
         &mut wt.to_rel_index_write(&mut ut),
      );
      RelIndexMerge::merge_delta_to_total_new_to_delta(
         &mut wn.to_rel_index_write(&mut un),
         &mut wd.to_rel_index_write(&mut ud),
         &mut wt.to_rel_index_write(&mut ut),
      );
   } else {
      RelIndexMerge::merge_delta_to_total_new_to_delta(&mut wn.0, &mut wd.0, &mut wt.0);
   }
   let (un, ud, ut) = ((), (), ());
   let (new, delta, total): (&Ix1, &Ix1, &Ix1) = if through_to_rel_index {
      (wn.to_rel_index(&un), wd.to_rel_index(&ud), wt.to_rel_index(&ut))
   } else {
      (&wn.0, &wd.0, &wt.0)
   };
   let ct2 = cnt_add(&ct, &cd);
   if OBS == OBS_GET {
      check_ix1_get(total, &ct2, q);
      if NN > 0 {
         check_ix1_get(delta, &cn, q);
      } else {
         assert!(delta.is_empty());
      }
      assert!(new.is_empty());
   }
   if OBS == OBS_ITER {
      check_ix1_iter(total, &ct2, q);
      if NN > 0 {
         check_ix1_iter(delta, &cn, q);
      } else {
         assert!(delta.iter_all().next().is_none());
      }
      assert!(new.iter_all().next().is_none());
   }
   if OBS == OBS_COMBINED {
      check_combined_ix1(total, &ct2, delta, &cn, q);
   }
   // vacuity witnesses: both outcomes of the size-based swap and of the per-key vector swap
   // that the instantiation can reach
   if ND > NT {
      kani::cover!(dl > tl);
      kani::cover!(row_total(&cd, 0) > row_total(&ct, 0) && row_total(&ct, 0) > 0);
   }
   if ND < NT {
      kani::cover!(dl < tl);
      kani::cover!(row_total(&cd, 0) < row_total(&ct, 0) && row_total(&cd, 0) > 0);
   }
   if ND == NT {
      kani::cover!(dl > tl);
      kani::cover!(dl < tl);
   }
   kani::cover!(true);
   std::mem::forget((wn, wd, wt));
}

macro_rules! ix1_harness {
   ($name:ident, $nn:literal, $nd:literal, $nt:literal, $obs:ident, $route:literal, $unwind:literal) => {
      #[kani::proof]
      #[kani::unwind($unwind)]
      #[kani::stub(std::time::Instant::now, crate::stubs::instant_now)]
      #[kani::stub(std::time::Instant::elapsed, crate::stubs::instant_elapsed)]
      #[kani::stub(std::mem::swap, crate::stubs::mem_swap)]
      #[kani::stub(alloc::alloc::realloc_nonnull, crate::stubs::realloc_is_out_of_bound)]
      #[kani::stub(std::vec::Vec::append, crate::stubs::vec_append)]
      pub fn $name() { ix1_body::<$nn, $nd, $nt, $obs>($route) }
   };
}

// quick: at most 3 values under one key after the merge (unwind 5 covers every loop);
// total' = total + delta is checked with `new` empty, delta' = new / new' = {} separately
ix1_harness!(rel_index_type1_merge_get_d2_t1, 0, 2, 1, OBS_GET, false, 4);
ix1_harness!(rel_index_type1_merge_get_d1_t2, 0, 1, 2, OBS_GET, false, 4);
ix1_harness!(rel_index_type1_merge_iter_d2_t1, 0, 2, 1, OBS_ITER, false, 4);
ix1_harness!(rel_index_type1_merge_iter_d1_t2, 0, 1, 2, OBS_ITER, false, 4);
ix1_harness!(rel_index_type1_merge_new_to_delta_get, 2, 1, 0, OBS_GET, false, 4);
ix1_harness!(rel_index_type1_merge_new_to_delta_iter, 2, 1, 0, OBS_ITER, false, 4);
ix1_harness!(to_rel_index_type_merge_get_d2_t1, 0, 2, 1, OBS_GET, true, 4);
ix1_harness!(to_rel_index_type_merge_new_to_delta_get, 2, 1, 0, OBS_GET, true, 4);
// thorough
ix1_harness!(rel_index_type1_merge_combined_d2_t1_wide, 1, 2, 1, OBS_COMBINED, false, 5);
ix1_harness!(rel_index_type1_merge_get_n1_d2_t1_wide, 1, 2, 1, OBS_GET, false, 5);
ix1_harness!(rel_index_type1_merge_get_d2_t2_wide, 0, 2, 2, OBS_GET, false, 6);

/// the combined view before any merge (tables filled by inserts only)
#[kani::proof]
#[kani::unwind(6)]
pub fn rel_index_type1_combined() {
   let (mut delta, mut total) = (Ix1::default(), Ix1::default());
   let cd = fill_ix1::<2>(&mut delta);
   let ct = fill_ix1::<2>(&mut total);
   let q = any_d();
   check_combined_ix1(&total, &ct, &delta, &cd, q);
   kani::cover!(row_total(&cd, q as usize) > 0 && row_total(&ct, q as usize) > 0);
   kani::cover!(true);
   std::mem::forget((total, delta));
}

// ------------------------------------------------------------------ RelFullIndexType<(u8,u8),()>

type Full2 = RelFullIndexType<(u8, u8), ()>;
type Set2 = [[bool; D]; D];

/// slots are filled with `index_insert` or `insert_if_not_present` (symbolic choice)
fn fill_full2<const N: usize>(ix: &mut Full2) -> Set2 {
   let mut set = [[false; D]; D];
   for _ in 0..N {
      if kani::any() {
         let (a, b) = (any_d(), any_d());
         if kani::any() {
            ix.index_insert((a, b), ());
         } else {
            let fresh = ix.insert_if_not_present(&(a, b), ());
            assert!(fresh == !set[a as usize][b as usize]);
         }
         set[a as usize][b as usize] = true;
      }
   }
   set
}

fn set2_len(s: &Set2) -> usize {
   let mut n = 0;
   for a in 0..D {
      for b in 0..D {
         if s[a][b] {
            n += 1;
         }
      }
   }
   n
}

fn set2_union(x: &Set2, y: &Set2) -> Set2 {
   let mut r = [[false; D]; D];
   for a in 0..D {
      for b in 0..D {
         r[a][b] = x[a][b] || y[a][b];
      }
   }
   r
}

/// `ix` is exactly `set`, observed at the (symbolic, i.e. every) key `q`
fn check_full2(ix: &Full2, set: &Set2, q: (u8, u8)) {
   let present = set[q.0 as usize][q.1 as usize];
   assert!(RelFullIndexRead::contains_key(ix, &q) == present);
   match ix.index_get(&q) {
      None => assert!(!present),
      Some(mut it) => {
         assert!(present);
         assert!(it.next().is_some() && it.next().is_none());
      },
   }
   let n = set2_len(set);
   assert!(RelIndexRead::len_estimate(ix) == n);
   assert!(RelIndexRead::is_empty(ix) == (n == 0));
   let (mut seen_q, mut seen) = (0u8, 0usize);
   for (k, mut vals) in ix.iter_all() {
      assert!((k.0 as usize) < D && (k.1 as usize) < D && set[k.0 as usize][k.1 as usize]);
      seen += 1;
      if *k == q {
         seen_q += 1;
      }
      assert!(vals.next().is_some() && vals.next().is_none());
   }
   assert!(seen == n && seen_q == present as u8);
}

fn check_combined_full2(x: &Full2, sx: &Set2, y: &Full2, sy: &Set2, q: (u8, u8)) {
   let comb = RelIndexCombined::new(x, y);
   let n = (sx[q.0 as usize][q.1 as usize] as usize) + (sy[q.0 as usize][q.1 as usize] as usize);
   match comb.index_get(&q) {
      None => assert!(n == 0),
      Some(it) => assert!(n > 0 && it.count() == n),
   }
   assert!(comb.len_estimate() == set2_len(sx) + set2_len(sy));
   assert!(comb.is_empty() == (set2_len(sx) + set2_len(sy) == 0));
   let (mut seen_q, mut seen) = (0usize, 0usize);
   for (k, _vals) in comb.iter_all() {
      assert!(sx[k.0 as usize][k.1 as usize] || sy[k.0 as usize][k.1 as usize]);
      seen += 1;
      if *k == q {
         seen_q += 1;
      }
   }
   assert!(seen == set2_len(sx) + set2_len(sy) && seen_q == n);
}

fn full2_body<const N: usize>() {
   let (mut new, mut delta, mut total) = (Full2::default(), Full2::default(), Full2::default());
   let sn = fill_full2::<N>(&mut new);
   let sd = fill_full2::<N>(&mut delta);
   let st = fill_full2::<N>(&mut total);
   let q = (any_d(), any_d()); // every key
   check_combined_full2(&total, &st, &delta, &sd, q);
   let (dl, tl) = (delta.len(), total.len());
   let (mut un, mut ud, mut ut) = ((), (), ());
   RelIndexMerge::merge_delta_to_total_new_to_delta(
      &mut new.to_rel_index_write(&mut un),
      &mut delta.to_rel_index_write(&mut ud),
      &mut total.to_rel_index_write(&mut ut),
   );
   let st2 = set2_union(&st, &sd);
   check_full2(&total, &st2, q);
   check_full2(&delta, &sn, q);
   check_full2(&new, &[[false; D]; D], q);
   check_combined_full2(&total, &st2, &delta, &sn, q);
   // insert-if-absent on the merged total
   let (a, b) = (any_d(), any_d());
   let fresh = total.insert_if_not_present(&(a, b), ());
   assert!(fresh == !st2[a as usize][b as usize]);
   assert!(RelFullIndexRead::contains_key(&total, &(a, b)));
   assert!(total.len() == set2_len(&st2) + fresh as usize);
   kani::cover!(dl > tl);
   kani::cover!(dl < tl);
   kani::cover!(dl == tl && dl > 0);
   kani::cover!(set2_len(&st2) < dl + tl); // delta and total overlapped
   kani::cover!(true);
   std::mem::forget((new, delta, total));
}

#[kani::proof]
#[kani::unwind(8)]
#[kani::stub(std::time::Instant::now, crate::stubs::instant_now)]
#[kani::stub(std::time::Instant::elapsed, crate::stubs::instant_elapsed)]
#[kani::stub(std::mem::swap, crate::stubs::mem_swap)]
pub fn full_index_unit_merge() { full2_body::<2>() }

#[kani::proof]
#[kani::unwind(8)]
#[kani::stub(std::time::Instant::now, crate::stubs::instant_now)]
#[kani::stub(std::time::Instant::elapsed, crate::stubs::instant_elapsed)]
#[kani::stub(std::mem::swap, crate::stubs::mem_swap)]
pub fn full_index_unit_merge_wide() { full2_body::<3>() }
