//! Kani harnesses over the real serial index types of `ascent::internal` (C19), the real
//! union-find structures of `ascent-byods-rels` (C18) and the real eqrel / trrel / trrel_uf
//! providers driven through the generated-code protocol (C10, C11, C12).
//! The table library (`hashbrown`) is the inline-array model of /verif/shims/hashbrown;
//! build with `RUSTFLAGS="--cfg ascent_verif"` (hook H1) so that the `std::collections` tables
//! of `ascent` are the model as well.
#![allow(clippy::all)]
#[cfg(kani)]
extern crate alloc;

#[cfg(kani)]
pub mod stubs;
#[cfg(kani)]
pub mod c19;
#[cfg(kani)]
pub mod c18;
#[cfg(kani)]
pub mod c18s;
#[cfg(kani)]
pub mod c11;
#[cfg(kani)]
pub mod c10;
#[cfg(kani)]
pub mod c12;
