use ascent::internal::*;
type Full2 = RelFullIndexType<(u8, u8), ()>;
fn any_d() -> u8 { let x: u8 = kani::any(); kani::assume(x < 3); x }
fn fill<const N: usize>(ix: &mut Full2) -> [[bool;3];3] {
   let mut set = [[false; 3]; 3];
   for _ in 0..N {
      if kani::any() {
         let (a, b) = (any_d(), any_d());
         ix.index_insert((a, b), ());
         set[a as usize][b as usize] = true;
      }
   }
   set
}
#[kani::proof]
#[kani::unwind(6)]
#[kani::stub(std::time::Instant::now, crate::stubs::instant_now)]
#[kani::stub(std::time::Instant::elapsed, crate::stubs::instant_elapsed)]
pub fn p1() {
   let (mut new, mut delta, mut total) = (Full2::default(), Full2::default(), Full2::default());
   let sn = fill::<2>(&mut new);
   let sd = fill::<2>(&mut delta);
   let st = fill::<2>(&mut total);
   RelIndexMerge::merge_delta_to_total_new_to_delta(&mut new, &mut delta, &mut total);
   let (a, b) = (any_d(), any_d());
   assert!(RelFullIndexRead::contains_key(&total, &(a, b)) == (st[a as usize][b as usize] || sd[a as usize][b as usize]));
   assert!(RelFullIndexRead::contains_key(&delta, &(a, b)) == sn[a as usize][b as usize]);
   assert!(new.len() == 0);
   kani::cover!(true);
}
#[kani::proof]
#[kani::unwind(6)]
pub fn p0() {
   let mut total = Full2::default();
   let st = fill::<2>(&mut total);
   let (a, b) = (any_d(), any_d());
   assert!(RelFullIndexRead::contains_key(&total, &(a, b)) == (st[a as usize][b as usize]));
   kani::cover!(true);
}
type Ix1 = RelIndexType1<(u8,), (u8,)>;
fn fill1<const N: usize>(ix: &mut Ix1) -> [[u8;3];3] {
   let mut cnt = [[0u8; 3]; 3];
   for _ in 0..N {
      if kani::any() {
         let (k, v) = (any_d(), any_d());
         ix.index_insert((k,), (v,));
         cnt[k as usize][v as usize] += 1;
      }
   }
   cnt
}
#[kani::proof]
#[kani::unwind(6)]
#[kani::stub(std::time::Instant::now, crate::stubs::instant_now)]
#[kani::stub(std::time::Instant::elapsed, crate::stubs::instant_elapsed)]
#[kani::stub(std::mem::swap, crate::stubs::mem_swap)]
pub fn p2() {
   let (mut new, mut delta, mut total) = (Ix1::default(), Ix1::default(), Ix1::default());
   let cd = fill1::<2>(&mut delta);
   let ct = fill1::<2>(&mut total);
   RelIndexMerge::merge_delta_to_total_new_to_delta(&mut new, &mut delta, &mut total);
   let q = any_d();
   let mut got = [0u8; 3];
   if let Some(it) = total.index_get(&(q,)) {
      for v in it { got[v.0 as usize] += 1; }
   }
   for v in 0..3 { assert!(got[v] == cd[q as usize][v] + ct[q as usize][v]); }
   kani::cover!(true);
   std::mem::forget((new, delta, total));
}
#[kani::proof]
#[kani::unwind(6)]
pub fn p3() {
   let mut total = Ix1::default();
   let ct = fill1::<2>(&mut total);
   let q = any_d();
   let mut got = [0u8; 3];
   if let Some(it) = total.index_get(&(q,)) {
      for v in it { got[v.0 as usize] += 1; }
   }
   for v in 0..3 { assert!(got[v] == ct[q as usize][v]); }
   kani::cover!(true);
   std::mem::forget(total);
}
#[kani::proof]
#[kani::unwind(4)]
#[kani::stub(std::time::Instant::now, crate::stubs::instant_now)]
#[kani::stub(std::time::Instant::elapsed, crate::stubs::instant_elapsed)]
#[kani::stub(std::mem::swap, crate::stubs::mem_swap)]
pub fn p4() {
   let (mut new, mut delta, mut total) = (Ix1::default(), Ix1::default(), Ix1::default());
   let cd = fill1::<2>(&mut delta);
   let ct = fill1::<2>(&mut total);
   RelIndexMerge::merge_delta_to_total_new_to_delta(&mut new, &mut delta, &mut total);
   assert!(total.len() <= 3);
   kani::cover!(true);
   std::mem::forget((new, delta, total));
}
fn rt(c: &[[u8;3];3], k: usize) -> u8 { c[k][0] + c[k][1] + c[k][2] }
#[kani::proof]
#[kani::unwind(5)]
pub fn v1() {
   let mut total = Ix1::default();
   let ct = fill1::<2>(&mut total);
   let mut nkeys = 0; for k in 0..3 { if rt(&ct,k) > 0 { nkeys += 1; } }
   assert!(RelIndexRead::len_estimate(&total) == nkeys);
   assert!(RelIndexRead::is_empty(&total) == (nkeys == 0));
   kani::cover!(true);
   std::mem::forget(total);
}
#[kani::proof]
#[kani::unwind(5)]
pub fn v2() {
   let mut total = Ix1::default();
   let ct = fill1::<2>(&mut total);
   let q = any_d();
   let (mut seen, mut seen_q) = (0usize, 0u8);
   for (k, vals) in total.iter_all() {
      assert!(k.0 < 3);
      seen += 1;
      if k.0 == q { seen_q += 1; }
      assert!(vals.len() == rt(&ct, k.0 as usize) as usize);
   }
   assert!(seen_q == (rt(&ct, q as usize) > 0) as u8);
   kani::cover!(true);
   std::mem::forget(total);
}
#[kani::proof]
#[kani::unwind(5)]
pub fn v3() {
   let mut total = Ix1::default();
   let ct = fill1::<2>(&mut total);
   let q = any_d();
   let (mut seen, mut seen_q) = (0usize, 0u8);
   for (k, vals) in total.iter_all() {
      assert!(k.0 < 3);
      seen += 1;
      if k.0 == q { seen_q += 1; }
      let mut got = [0u8; 3];
      for v in vals { assert!(v.0 < 3); got[v.0 as usize] += 1; }
      let c = ct[k.0 as usize];
      assert!(got[0] == c[0] && got[1] == c[1] && got[2] == c[2]);
   }
   assert!(seen_q == (rt(&ct, q as usize) > 0) as u8);
   kani::cover!(true);
   std::mem::forget(total);
}
#[kani::proof]
#[kani::unwind(5)]
pub fn v4() {
   let mut total = Ix1::default();
   let ct = fill1::<2>(&mut total);
   let q = any_d();
   let w = any_d();
   let (mut seen, mut seen_q) = (0usize, 0u8);
   for (k, vals) in total.iter_all() {
      assert!(k.0 < 3);
      seen += 1;
      if k.0 == q { seen_q += 1; }
      let s = vals.as_slice();
      let mut n = 0u8;
      let mut j = 0;
      while j < s.len() { if s[j].0 == w { n += 1; } j += 1; }
      assert!(n == ct[k.0 as usize][w as usize]);
   }
   assert!(seen_q == (rt(&ct, q as usize) > 0) as u8);
   kani::cover!(true);
   std::mem::forget(total);
}
#[kani::proof]
#[kani::unwind(4)]
#[kani::stub(std::time::Instant::now, crate::stubs::instant_now)]
#[kani::stub(std::time::Instant::elapsed, crate::stubs::instant_elapsed)]
#[kani::stub(std::mem::swap, crate::stubs::mem_swap)]
pub fn p5() {
   let (mut new, mut delta, mut total) = (Ix1::default(), Ix1::default(), Ix1::default());
   let cd = fill1::<2>(&mut delta);
   let ct = fill1::<2>(&mut total);
   for k in 0..3 { kani::assume(rt(&cd, k) == 0 || rt(&ct, k) == 0); }
   RelIndexMerge::merge_delta_to_total_new_to_delta(&mut new, &mut delta, &mut total);
   assert!(total.len() <= 3);
   kani::cover!(true);
   std::mem::forget((new, delta, total));
}
#[kani::proof]
#[kani::unwind(6)]
#[kani::stub(alloc::alloc::realloc_nonnull, crate::stubs::realloc_is_out_of_bound)]
pub fn p6() {
   let (mut delta, mut total) = (Ix1::default(), Ix1::default());
   let cd = fill1::<2>(&mut delta);
   let ct = fill1::<2>(&mut total);
   let q = any_d();
   let comb = RelIndexCombined::new(&total, &delta);
   let mut got = [0u8; 3];
   if let Some(it) = comb.index_get(&(q,)) { for v in it { got[v.0 as usize] += 1; } }
   for v in 0..3 { assert!(got[v] == cd[q as usize][v] + ct[q as usize][v]); }
   kani::cover!(true);
   std::mem::forget((total, delta));
}
#[kani::proof]
#[kani::unwind(6)]
pub fn p7() {
   let (mut delta, mut total) = (Ix1::default(), Ix1::default());
   let cd = fill1::<2>(&mut delta);
   let ct = fill1::<2>(&mut total);
   let q = any_d();
   let comb = RelIndexCombined::new(&total, &delta);
   let mut got = [0u8; 3];
   if let Some(it) = comb.index_get(&(q,)) { for v in it { got[v.0 as usize] += 1; } }
   for v in 0..3 { assert!(got[v] == cd[q as usize][v] + ct[q as usize][v]); }
   kani::cover!(true);
   std::mem::forget((total, delta));
}
fn get_cnt(ix: &Ix1, q: u8) -> [u8;3] {
   let mut got = [0u8; 3];
   if let Some(it) = ix.index_get(&(q,)) { for v in it { got[v.0 as usize] += 1; } }
   got
}
#[kani::proof]
#[kani::unwind(6)]
pub fn s1() { // one table, 4 slots
   let mut total = Ix1::default();
   let ct = fill1::<4>(&mut total);
   let q = any_d();
   let got = get_cnt(&total, q);
   for v in 0..3 { assert!(got[v] == ct[q as usize][v]); }
   std::mem::forget(total);
}
#[kani::proof]
#[kani::unwind(6)]
pub fn s2() { // two tables, 2 slots each, separate lookups
   let (mut delta, mut total) = (Ix1::default(), Ix1::default());
   let cd = fill1::<2>(&mut delta);
   let ct = fill1::<2>(&mut total);
   let q = any_d();
   let got = get_cnt(&total, q);
   for v in 0..3 { assert!(got[v] == ct[q as usize][v]); }
   let got = get_cnt(&delta, q);
   for v in 0..3 { assert!(got[v] == cd[q as usize][v]); }
   std::mem::forget((total, delta));
}
#[kani::proof]
#[kani::unwind(6)]
pub fn s3() { // two tables, 2 slots each, only one looked up
   let (mut delta, mut total) = (Ix1::default(), Ix1::default());
   let cd = fill1::<2>(&mut delta);
   let ct = fill1::<2>(&mut total);
   let q = any_d();
   let got = get_cnt(&total, q);
   for v in 0..3 { assert!(got[v] == ct[q as usize][v]); }
   std::mem::forget((total, delta));
}
#[kani::proof]
#[kani::unwind(4)]
pub fn e1() {
   let (mut new, mut delta) = (Ix1::default(), Ix1::default());
   let cn = fill1::<2>(&mut new);
   crate::stubs::mem_swap(&mut new, &mut delta);
   let q = any_d();
   let got = get_cnt(&delta, q);
   for v in 0..3 { assert!(got[v] == cn[q as usize][v]); }
   kani::cover!(true);
   std::mem::forget((new, delta));
}
#[kani::proof]
#[kani::unwind(4)]
pub fn e2() {
   let mut new = Ix1::default();
   let cn = fill1::<2>(&mut new);
   let delta = new;
   let q = any_d();
   let got = get_cnt(&delta, q);
   for v in 0..3 { assert!(got[v] == cn[q as usize][v]); }
   kani::cover!(true);
   std::mem::forget(delta);
}
#[kani::proof]
#[kani::unwind(4)]
#[kani::stub(std::time::Instant::now, crate::stubs::instant_now)]
#[kani::stub(std::time::Instant::elapsed, crate::stubs::instant_elapsed)]
#[kani::stub(std::mem::swap, crate::stubs::mem_swap)]
pub fn e3() {
   let (mut new, mut delta, mut total) = (Ix1::default(), Ix1::default(), Ix1::default());
   let cn = fill1::<2>(&mut new);
   RelIndexMerge::merge_delta_to_total_new_to_delta(&mut new, &mut delta, &mut total);
   let q = any_d();
   let got = get_cnt(&delta, q);
   for v in 0..3 { assert!(got[v] == cn[q as usize][v]); }
   kani::cover!(true);
   std::mem::forget((new, delta, total));
}
#[kani::proof]
#[kani::unwind(4)]
#[kani::stub(std::time::Instant::now, crate::stubs::instant_now)]
#[kani::stub(std::time::Instant::elapsed, crate::stubs::instant_elapsed)]
#[kani::stub(std::mem::swap, crate::stubs::mem_swap)]
pub fn e4() {
   let (mut new, mut delta, mut total) = (Ix1::default(), Ix1::default(), Ix1::default());
   let cn = fill1::<2>(&mut new);
   let cd = fill1::<1>(&mut delta);
   RelIndexMerge::merge_delta_to_total_new_to_delta(&mut new, &mut delta, &mut total);
   let q = any_d();
   let got = get_cnt(&delta, q);
   for v in 0..3 { assert!(got[v] == cn[q as usize][v]); }
   kani::cover!(true);
   std::mem::forget((new, delta, total));
}
#[kani::proof]
#[kani::unwind(4)]
#[kani::stub(std::time::Instant::now, crate::stubs::instant_now)]
#[kani::stub(std::time::Instant::elapsed, crate::stubs::instant_elapsed)]
#[kani::stub(std::mem::swap, crate::stubs::mem_swap)]
#[kani::stub(alloc::alloc::realloc_nonnull, crate::stubs::realloc_is_out_of_bound)]
#[kani::stub(std::vec::Vec::append, crate::stubs::vec_append)]
pub fn e5() {
   let (mut new, mut delta, mut total) = (Ix1::default(), Ix1::default(), Ix1::default());
   let cn = fill1::<2>(&mut new);
   let cd = fill1::<1>(&mut delta);
   RelIndexMerge::merge_delta_to_total_new_to_delta(&mut new, &mut delta, &mut total);
   let q = any_d();
   let got = get_cnt(&total, q);
   for v in 0..3 { assert!(got[v] == cd[q as usize][v]); }
   kani::cover!(true);
   std::mem::forget((new, delta, total));
}
#[kani::proof]
#[kani::unwind(4)]
#[kani::stub(std::time::Instant::now, crate::stubs::instant_now)]
#[kani::stub(std::time::Instant::elapsed, crate::stubs::instant_elapsed)]
#[kani::stub(std::mem::swap, crate::stubs::mem_swap)]
#[kani::stub(alloc::alloc::realloc_nonnull, crate::stubs::realloc_is_out_of_bound)]
#[kani::stub(std::vec::Vec::append, crate::stubs::vec_append)]
pub fn e6() {
   let (mut new, mut delta, mut total) = (Ix1::default(), Ix1::default(), Ix1::default());
   let cd = fill1::<1>(&mut delta);
   let ct = fill1::<1>(&mut total);
   RelIndexMerge::merge_delta_to_total_new_to_delta(&mut new, &mut delta, &mut total);
   let q = any_d();
   let got = get_cnt(&total, q);
   for v in 0..3 { assert!(got[v] == cd[q as usize][v] + ct[q as usize][v]); }
   kani::cover!(true);
   std::mem::forget((new, delta, total));
}
#[kani::proof]
#[kani::unwind(4)]
pub fn f1() {
   let mut total = Ix1::default();
   let ct = fill1::<2>(&mut total);
   let q = any_d();
   if let Some(v) = total.get_mut(&(q,)) {
      let mut w: Vec<(u8,)> = Vec::with_capacity(4);
      w.push((1,));
      crate::stubs::mem_swap(&mut w, v);
      std::mem::forget(w);
   }
   let q2 = any_d();
   let got = get_cnt(&total, q2);
   if q2 != q { for v in 0..3 { assert!(got[v] == ct[q2 as usize][v]); } }
   kani::cover!(true);
   std::mem::forget(total);
}
fn mic<const SWAP: bool, const OCC: u8>(from: &mut Ix1, to: &mut Ix1) {
   use ascent::hashbrown::hash_map::Entry::*;
   if SWAP && from.len() > to.len() {
      crate::stubs::mem_swap(from, to);
   }
   for (k, mut v) in from.drain() {
      match to.entry(k) {
         Occupied(existing) => {
            let existing = existing.into_mut();
            if OCC == 0 || OCC == 2 {
               if v.len() > existing.len() {
                  crate::stubs::mem_swap(&mut v, existing);
               }
            }
            if OCC == 0 || OCC == 3 {
               crate::stubs::vec_append(existing, &mut v);
            }
            if OCC != 0 { std::mem::forget(v); }
         },
         Vacant(vacant) => {
            vacant.insert(v);
         },
      }
   }
}
macro_rules! mic_h { ($name:ident, $swap:literal, $occ:literal) => {
#[kani::proof]
#[kani::unwind(4)]
#[kani::stub(alloc::alloc::realloc_nonnull, crate::stubs::realloc_is_out_of_bound)]
pub fn $name() {
   let (mut delta, mut total) = (Ix1::default(), Ix1::default());
   let cd = fill1::<1>(&mut delta);
   let ct = fill1::<1>(&mut total);
   mic::<$swap, $occ>(&mut delta, &mut total);
   let q = any_d();
   let got = get_cnt(&total, q);
   if $occ == 0 { for v in 0..3 { assert!(got[v] == cd[q as usize][v] + ct[q as usize][v]); } }
   kani::cover!(true);
   std::mem::forget((delta, total));
} } }
mic_h!(g_noswap_full, false, 0);
mic_h!(g_swap_full, true, 0);
mic_h!(g_swap_nothing, true, 1);
mic_h!(g_swap_swaponly, true, 2);
mic_h!(g_swap_appendonly, true, 3);
mic_h!(g_noswap_nothing, false, 1);
