use ascent::internal::*;
type Full2 = RelFullIndexType<(u8, u8), ()>;
fn any_d() -> u8 { let x: u8 = kani::any(); kani::assume(x < 3); x }
fn fill<const N: usize>(ix: &mut Full2) -> [[bool;3];3] {
   let mut set = [[false; 3]; 3];
   for _ in 0..N {
      if kani::any() {
         let (a, b) = (any_d(), any_d());
         ix.index_insert((a, b), ());
         set[a as usize][b as usize] = true;
      }
   }
   set
}
#[kani::proof]
#[kani::unwind(6)]
#[kani::stub(std::time::Instant::now, crate::stubs::instant_now)]
#[kani::stub(std::time::Instant::elapsed, crate::stubs::instant_elapsed)]
pub fn p1() {
   let (mut new, mut delta, mut total) = (Full2::default(), Full2::default(), Full2::default());
   let sn = fill::<2>(&mut new);
   let sd = fill::<2>(&mut delta);
   let st = fill::<2>(&mut total);
   RelIndexMerge::merge_delta_to_total_new_to_delta(&mut new, &mut delta, &mut total);
   let (a, b) = (any_d(), any_d());
   assert!(RelFullIndexRead::contains_key(&total, &(a, b)) == (st[a as usize][b as usize] || sd[a as usize][b as usize]));
   assert!(RelFullIndexRead::contains_key(&delta, &(a, b)) == sn[a as usize][b as usize]);
   assert!(new.len() == 0);
   kani::cover!(true);
}
#[kani::proof]
#[kani::unwind(6)]
pub fn p0() {
   let mut total = Full2::default();
   let st = fill::<2>(&mut total);
   let (a, b) = (any_d(), any_d());
   assert!(RelFullIndexRead::contains_key(&total, &(a, b)) == (st[a as usize][b as usize]));
   kani::cover!(true);
}
