//! Stubs shared by the harnesses (DESIGN.md §3.4).
//! `clock_gettime` is not supported by Kani; the merge routines of `ascent::internal` and of the
//! byods providers time themselves with `Instant::now()` / `elapsed()`.
use std::time::{Duration, Instant};

/// a constant instant
pub fn instant_now() -> Instant {
   // Instant = Timespec { tv_sec: i64, tv_nsec: u32 in 0..1_000_000_000 } on this target
   unsafe { std::mem::transmute::<[u8; std::mem::size_of::<Instant>()], Instant>([0u8; std::mem::size_of::<Instant>()]) }
}

/// zero time has passed
pub fn instant_elapsed(_this: &Instant) -> Duration { Duration::ZERO }

/// for panic paths that format their message
pub fn format_stub(_args: std::fmt::Arguments<'_>) -> String { String::new() }

/// `core::mem::swap` as one typed move each way.  Behaviourally identical to the real one; the
/// real implementation swaps large values in a loop over 8-byte chunks (33 iterations for one
/// table of the model), which would force every harness to unwind every loop that far, and it
/// moves pointers as integers.
pub fn mem_swap<T>(x: &mut T, y: &mut T) {
   unsafe {
      // typed moves only: a `memcpy` would reassemble the pointers inside `T` from bytes and
      // CBMC would lose track of what they point to
      let tmp = std::ptr::read(x);
      std::ptr::write(x, std::ptr::read(y));
      std::ptr::write(y, tmp);
   }
}

/// Growth of a heap buffer (`Vec` beyond its capacity) is treated as a *bound* of the harness:
/// reachable growth fails the harness with the table-model capacity message (the driver reports
/// "bound too small", never a pass); unreachable growth costs nothing.  Without this stub every
/// `push`/`append` carries a `realloc` (fresh object of symbolic size + `memcpy`) that CBMC's
/// array encoding cannot prune.
pub unsafe fn realloc_is_out_of_bound(_ptr: std::ptr::NonNull<u8>, _layout: std::alloc::Layout, _new_size: usize) -> *mut u8 {
   panic!("capacity of the table model exceeded (a Vec grew beyond its allocated capacity)")
}

/// Heap blocks come in four constant sizes (8, 32, 128, 512 bytes).  A request of symbolic size (the first `push` on an
/// empty `Vec` computes its capacity from a field CBMC does not know to be constant) would
/// otherwise create an object of symbolic size, which CBMC handles with its array theory at a
/// cost quadratic in the number of accesses (measured: two `UnionFind` operations exhaust
/// 14 GB).  Handing out a larger block than requested is unobservable; a request beyond the
/// largest class fails the harness as "bound too small".
pub unsafe fn alloc_size_classes(layout: std::alloc::Layout) -> *mut u8 {
   use std::alloc::{alloc_zeroed, Layout};
   let (size, align) = (layout.size(), layout.align());
   if size <= 8 {
      alloc_zeroed(Layout::from_size_align_unchecked(8, align))
   } else if size <= 32 {
      alloc_zeroed(Layout::from_size_align_unchecked(32, align))
   } else if size <= 128 {
      alloc_zeroed(Layout::from_size_align_unchecked(128, align))
   } else if size <= 512 {
      alloc_zeroed(Layout::from_size_align_unchecked(512, align))
   } else {
      // measured: a fifth class (2048 bytes, needed by the trrel_uf provider's `Rc<TrRelUnionFind>`)
      // pushes `c18::quick::union_find_one_union` over the 14 GB memory cap, and the C12 harness
      // still has no verdict after 600 s with it
      panic!("capacity of the table model exceeded (heap block larger than 512 bytes requested)")
   }
}

/// Blocks are never returned (nothing observes that; use-after-free is outside every property
/// here).  Needed because the size recorded for a block is its size class, not the requested size.
pub unsafe fn dealloc_noop(_ptr: std::ptr::NonNull<u8>, _layout: std::alloc::Layout) {}

/// Growth of a heap buffer as "take a block of the next size class, copy the old block, leak it".
/// Used by the harnesses whose *subject* is a bucket growing beyond its first allocation: the new
/// block has a constant size (no object of symbolic size) and the copy has a constant length.
pub unsafe fn realloc_size_classes(ptr: std::ptr::NonNull<u8>, layout: std::alloc::Layout, new_size: usize) -> *mut u8 {
   use std::alloc::Layout;
   let new = alloc_size_classes(Layout::from_size_align_unchecked(new_size, layout.align()));
   let old = layout.size();
   if old <= 8 {
      std::ptr::copy_nonoverlapping(ptr.as_ptr(), new, 8);
   } else if old <= 32 {
      std::ptr::copy_nonoverlapping(ptr.as_ptr(), new, 32);
   } else if old <= 128 {
      std::ptr::copy_nonoverlapping(ptr.as_ptr(), new, 128);
   } else {
      panic!("capacity of the table model exceeded (a Vec grew beyond 128 bytes twice)")
   }
   new
}
