//! Stubs shared by the harnesses (DESIGN.md §3.4).
//! `clock_gettime` is not supported by Kani; the merge routines of `ascent::internal` and of the
//! byods providers time themselves with `Instant::now()` / `elapsed()`.
use std::time::{Duration, Instant};

/// a constant instant
pub fn instant_now() -> Instant {
   // Instant = Timespec { tv_sec: i64, tv_nsec: u32 in 0..1_000_000_000 } on this target
   unsafe { std::mem::transmute::<[u8; std::mem::size_of::<Instant>()], Instant>([0u8; std::mem::size_of::<Instant>()]) }
}

/// zero time has passed
pub fn instant_elapsed(_this: &Instant) -> Duration { Duration::ZERO }

/// for panic paths that format their message
pub fn format_stub(_args: std::fmt::Arguments<'_>) -> String { String::new() }
