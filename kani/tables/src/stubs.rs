//! Stubs shared by the harnesses (DESIGN.md §3.4).
//! `clock_gettime` is not supported by Kani; the merge routines of `ascent::internal` and of the
//! byods providers time themselves with `Instant::now()` / `elapsed()`.
use std::time::{Duration, Instant};

/// a constant instant
pub fn instant_now() -> Instant {
   // Instant = Timespec { tv_sec: i64, tv_nsec: u32 in 0..1_000_000_000 } on this target
   unsafe { std::mem::transmute::<[u8; std::mem::size_of::<Instant>()], Instant>([0u8; std::mem::size_of::<Instant>()]) }
}

/// zero time has passed
pub fn instant_elapsed(_this: &Instant) -> Duration { Duration::ZERO }

/// for panic paths that format their message
pub fn format_stub(_args: std::fmt::Arguments<'_>) -> String { String::new() }

/// `core::mem::swap` as one typed move each way.  Behaviourally identical to the real one; the
/// real implementation swaps large values in a loop over 8-byte chunks (33 iterations for one
/// table of the model), which would force every harness to unwind every loop that far, and it
/// moves pointers as integers.
pub fn mem_swap<T>(x: &mut T, y: &mut T) {
   unsafe {
      // typed moves only: a `memcpy` would reassemble the pointers inside `T` from bytes and
      // CBMC would lose track of what they point to
      let tmp = std::ptr::read(x);
      std::ptr::write(x, std::ptr::read(y));
      std::ptr::write(y, tmp);
   }
}

/// Growth of a heap buffer (`Vec` beyond its capacity) is treated as a *bound* of the harness:
/// reachable growth fails the harness with the table-model capacity message (the driver reports
/// "bound too small", never a pass); unreachable growth costs nothing.  Without this stub every
/// `push`/`append` carries a `realloc` (fresh object of symbolic size + `memcpy`) that CBMC's
/// array encoding cannot prune.
pub unsafe fn realloc_is_out_of_bound(_ptr: std::ptr::NonNull<u8>, _layout: std::alloc::Layout, _new_size: usize) -> *mut u8 {
   panic!("capacity of the table model exceeded (a Vec grew beyond its allocated capacity)")
}

/// `Vec::append` as an element-wise move loop (same result, same order).  The real one is a
/// single `memcpy` of symbolic length, which CBMC encodes with its array theory; every later
/// read of the destination then costs quadratically many constraints (measured: > 14 GB).
pub fn vec_append<T, A: std::alloc::Allocator>(this: &mut Vec<T, A>, other: &mut Vec<T, A>) {
   let n = other.len();
   unsafe {
      other.set_len(0);
      let mut i = 0;
      while i < n {
         this.push(std::ptr::read(other.as_ptr().add(i)));
         i += 1;
      }
   }
}
