"""Shared plumbing for the checks: evidence files, known findings, subprocess helpers."""
import json, os, subprocess, sys, time, hashlib, re

VERIF = os.path.dirname(os.path.dirname(os.path.abspath(__file__)))
REPO = os.environ.get("VERIF_REPO", "/repo")
CACHE = os.path.join(VERIF, ".cache")
# VERIF_RUN labels a side run (seeded-mutation tests against a copy of the repository given by VERIF_REPO):
# its evidence, replays and scratch directories are kept apart from the registered checks' ones.
RUN = os.environ.get("VERIF_RUN", "")
EVID = os.path.join(VERIF, "evidence") if not RUN else os.path.join(CACHE, "sideruns", RUN, "evidence")
REPLAYS = os.path.join(VERIF, "replays") if not RUN else os.path.join(CACHE, "sideruns", RUN, "replays")

EXIT_OK, EXIT_VIOLATION, EXIT_INCONCLUSIVE = 0, 1, 2


def seed():
    try:
        return int(os.environ.get("VERIF_SEED", "0"))
    except ValueError:
        return 0


def env_offline(extra=None):
    e = dict(os.environ)
    e["CARGO_NET_OFFLINE"] = "true"
    e.setdefault("CARGO_TERM_COLOR", "never")
    if extra:
        e.update(extra)
    return e


def run(cmd, cwd=None, env=None, timeout=None, mem_kb=None, log=None):
    """Run cmd (list), return (rc, output, wall).  rc = -9 on timeout."""
    t0 = time.time()
    pre = None
    if mem_kb:
        import resource

        def pre():
            resource.setrlimit(resource.RLIMIT_AS, (mem_kb * 1024, mem_kb * 1024))
            os.setsid()
    else:
        pre = os.setsid
    p = subprocess.Popen(cmd, cwd=cwd, env=env or env_offline(), stdout=subprocess.PIPE, stderr=subprocess.STDOUT,
                         text=True, errors="replace", preexec_fn=pre)
    try:
        out, _ = p.communicate(timeout=timeout)
        rc = p.returncode
    except subprocess.TimeoutExpired:
        import signal
        try:
            os.killpg(p.pid, signal.SIGKILL)
        except ProcessLookupError:
            pass
        out, _ = p.communicate()
        rc = -9
    if log:
        os.makedirs(os.path.dirname(log), exist_ok=True)
        with open(log, "w") as f:
            f.write(out)
    return rc, out, time.time() - t0


def repo_fingerprint():
    """Content hash of the working-tree sources the checks depend on.  Used in the evidence files and to key
    the cargo target directories: build artefacts of one state of /repo are never reused for another state
    (cargo's own freshness test is mtime based, which is not reliable across restores / checkouts)."""
    h = hashlib.sha256()
    for root in ("ascent", "ascent_base", "ascent_macro", "byods/ascent-byods-rels"):
        base = os.path.join(REPO, root)
        for d, dirs, fs in sorted(os.walk(base)):
            dirs[:] = sorted(x for x in dirs if x not in ("target", "examples", "benches"))
            for f in sorted(fs):
                if f.endswith(".rs") or f == "Cargo.toml":
                    p = os.path.join(d, f)
                    h.update(p.encode())
                    with open(p, "rb") as fh:
                        h.update(fh.read())
    return h.hexdigest()[:16]


def keyed_target_dir(prefix, keep=3):
    """.cache/<prefix>-<repo fingerprint>; older directories of the same prefix are pruned (disk)"""
    import shutil
    fp = repo_fingerprint()
    d = os.path.join(CACHE, "%s-%s" % (prefix, fp))
    os.makedirs(CACHE, exist_ok=True)
    try:
        olds = sorted([x for x in os.listdir(CACHE) if x.startswith(prefix + "-") and len(x) == len(prefix) + 17 and x != os.path.basename(d)],
                      key=lambda x: os.path.getmtime(os.path.join(CACHE, x)))
        for x in olds[:-(keep - 1)] if keep > 1 else olds:
            shutil.rmtree(os.path.join(CACHE, x), ignore_errors=True)
    except OSError:
        pass
    os.makedirs(d, exist_ok=True)
    os.utime(d, None)
    return d


def load_known_findings():
    p = os.path.join(VERIF, "known_findings.json")
    if not os.path.exists(p):
        return {"findings": [], "fixed": []}
    with open(p) as f:
        return json.load(f)


def match_known(prop, role):
    """role: dict describing the counterexample by *role* (feature set), not by name.
    A finding matches when every key of its `match` object equals the role's value
    (values may be lists = any-of)."""
    for k in load_known_findings().get("findings", []):
        if k.get("property") != prop:
            continue
        m = k.get("match", {})
        ok = True
        for key, want in m.items():
            have = role.get(key)
            if isinstance(want, list):
                if have not in want:
                    ok = False
            elif have != want:
                ok = False
        if ok:
            return k
    return None


def write_evidence(prop, tier, level, coverage, assumptions, wall, violations=0):
    os.makedirs(EVID, exist_ok=True)
    ev = {
        "property_id": prop,
        "tier": tier,
        "seed": seed(),
        "level": level,
        "coverage": coverage,
        "assumptions": assumptions,
        "wall_s": round(wall, 2),
        "violations": violations,
    }
    with open(os.path.join(EVID, prop + ".json"), "w") as f:
        json.dump(ev, f, indent=1, sort_keys=True)
        f.write("\n")
    return ev


def save_replay(prop, name, text):
    d = os.path.join(REPLAYS, prop)
    os.makedirs(d, exist_ok=True)
    p = os.path.join(d, re.sub(r"[^A-Za-z0-9_.-]", "_", name))
    with open(p, "w") as f:
        f.write(text)
    return p


def finish(prop, violations, known, inconclusive):
    """Print the result lines and return the exit code."""
    for k in known:
        print("KNOWN-FINDING: property=%s %s" % (prop, k))
    for v in violations:
        print("VIOLATION property=%s replay=%s" % (prop, v))
    for i in inconclusive:
        print("INCONCLUSIVE property=%s %s" % (prop, i))
    sys.stdout.flush()
    if violations:
        return EXIT_VIOLATION
    if inconclusive:
        return EXIT_INCONCLUSIVE
    return EXIT_OK
