"""Properties decided by Engine A (Kani / CBMC over the real code)."""
import os, re, time, json
from . import common as C
from . import kanirun as K

BASE = os.path.join(C.VERIF, "kani", "base")
TABLES = os.path.join(C.VERIF, "kani", "tables")

COMMON_ASSUME = [
    "Kani 0.68 / CBMC 6.11 (cadical) model of the compiled MIR is faithful; counterexamples are believed only after native concrete playback",
    "every loop is unwound to the stated bound and the unwinding assertions are checked (a failed one = inconclusive, never a pass)",
    "one harness per concrete instantiation of a generic; other instantiations are outside the claim",
]

TABLES_STUBS = [
    "hashbrown (third-party table library) = /verif/shims/hashbrown: fixed-capacity inline arrays (capacity 4), linear search, no hashing; capacity overflow panics and is reported as 'bound too small'; std::collections::{HashMap,HashSet} of ascent/internal.rs, rel_index_read.rs and byods uf.rs are the same model through hook H1 (--cfg ascent_verif)",
    "std::time::Instant::{now,elapsed} = constant instant / zero duration (clock_gettime is unsupported by Kani)",
    "core::mem::swap = two typed moves (behaviourally identical; the real one loops over 8-byte chunks and moves pointers as integers)",
    "alloc::alloc::realloc_nonnull = panic 'capacity of the table model exceeded (a Vec grew beyond its allocated capacity)': Vec growth is a bound of the harness, reported as 'bound too small' when reachable",
]
TABLES_ASSUME = [
    "the table model's contract: a map is a finite partial function, a set is a finite set, iteration order = insertion order (remove moves the last entry into the hole); validated against std's tables by /verif/shims/hashbrown/tests/differential.rs",
    "counterexamples are replayed with `cargo kani playback` of the same harness crate, i.e. against the table *model*, not against real hashbrown",
]
HEAP_STUBS = [
    "std::alloc::alloc = zeroed block of the next size class (8/32/128/512 bytes; larger requests fail as 'bound too small'): avoids heap objects of symbolic size",
    "alloc::alloc::dealloc_nonnull = no-op (blocks are never returned; use-after-free is outside the properties)",
]
TABLES_FUNCS_C19 = [
    "ascent::internal::{RelIndexWrite,RelIndexMerge,RelFullIndexWrite,RelFullIndexRead} for RelIndexType1, RelFullIndexType (HashBrownRelFullIndexType), LatticeIndexType, RelNoIndexType",
    "ascent::rel_index_read::{RelIndexRead,RelIndexReadAll} for the same types and RelIndexCombined",
    "ascent::rel::ToRelIndexType / ascent::to_rel_index::ToRelIndex0 (to_rel_index, to_rel_index_write) and the `&mut T` boilerplate impls of rel_index_boilerplate.rs",
]

PROPS = {
    "C16": {
        "crate": BASE, "target": "kani-base", "env": {"RUSTFLAGS": "--cfg ascent_verif"},
        "patterns": {"quick": ["c16::", "c16_sets::set_u8", "c16_sets::bounded_set"], "thorough": ["c16::", "c16_sets::"]},
        "min_harnesses": {"quick": 99, "thorough": 101},
        "jobs": 16, "timeout": {"quick": 1500, "thorough": 3000},
        "level": "model_checking",
        "functions": ["ascent_base::lattice::{ord_lattice_impl! for u8,i8,u64,i128,usize; Option<T>; Box<T>; Rc<T>; Arc<T>; Reverse<T>}",
                      "ascent_base::lattice::dual::Dual", "ascent_base::lattice::ord_lattice::OrdLattice",
                      "ascent_base::lattice::tuple (arity 1..3, unit)", "ascent_base::lattice::product::Product (tuples 2..3, arrays 2..3)",
                      "ascent_base::lattice::constant_propagation::ConstPropagation",
                      "ascent_base::lattice::set::Set / bounded_set::BoundedSet (kani/base/src/c16_sets.rs, small carriers)"],
        "bounds": "all pairs/triples of values over the full bit-width of every scalar component (no assumptions); no loops except Product<[T;N]> (N<=3, fully unwound)",
        "stubs": ["std::collections::BTreeSet -> ascent_base::verif_set::BTreeSet (hook H3: heap-free finite-set model, capacity 4) for the Set / BoundedSet harnesses"],
        "assumptions": COMMON_ASSUME + [
            "bool-bearing instantiations are not run: Kani 0.68 mis-encodes `<=`/`>=` on bool operands (non-reproducing counterexample a=true,b=false); the same macro body is decided for u8/i8/u64/i128/usize",
        ],
    },
    "C17": {
        "crate": BASE, "target": "kani-base", "env": {"RUSTFLAGS": "--cfg ascent_verif"},
        "patterns": {"quick": ["c17::"], "thorough": ["c17::", "c17w::"]},
        "min_harnesses": {"quick": 17, "thorough": 18},
        "jobs": 16, "timeout": {"quick": 1500, "thorough": 5400},
        "level": "model_checking",
        "functions": ["ascent::aggregators::{min,max,sum,count,mean,percentile,not}"],
        "bounds": "inputs: every multiset of <= 4 values (u8 / i16 over their full range), symbolic length; percentile: length enumerated 0..4 by instantiation, p every integer percent 0..=100 (rank oracle) and every f64 in [0,100] (totality + membership); rank arithmetic additionally on the concrete sorted input 0..50 (thorough: 0..64; 80 and 100 give no verdict: slice::sort changes strategy above 64 elements) with symbolic integer p; unwind 7 / 52 / 66",
        "stubs": [],
        "assumptions": COMMON_ASSUME + ["sum: precondition 'the mathematical sum fits in the item type' (overflow is outside the property)",
                                       "inputs longer than 4 items are outside the claim"],
    },
    "C19": {
        "crate": TABLES, "target": "kani-tables",
        "patterns": {"quick": ["c19::quick::", "c19::growth::"], "thorough": ["c19::quick::", "c19::growth::"]},
        "min_harnesses": {"quick": 16, "thorough": 16},
        "jobs": 8, "timeout": {"quick": 1500, "thorough": 3000},
        "extra": ["-Z", "stubbing"], "env": {"RUSTFLAGS": "--cfg ascent_verif"},
        "level": "model_checking",
        "functions": TABLES_FUNCS_C19,
        "bounds": "keys and values from 3 constants; new/delta/total filled by symbolic insert sequences of <= 2 slots each (RelFullIndexType<(u8,u8),()>, RelFullIndexType<(u8,),usize>, LatticeIndexType<(u8,),usize>, RelNoIndexType) resp. <= 1 delta + <= 1 total slot for the merge of the Vec-backed RelIndexType1<(u8,),(u8,)> / ToRelIndexType (<= 3 slots for insert/lookup/iterate, 2+2 for the combined view); every key of the domain is observed through a symbolic query key; table capacity 4; unwind 2..3 (7 for RelNoIndexType). thorough adds 2-against-1 merges of RelIndexType1 (both outcomes of the per-key vector swap), which did not finish within 900 s when measured. c19::growth: one key whose bucket (Vec<usize>) grows beyond its first allocation during the merge, concrete shapes delta+total = 5+1, 1+5, 3+2, 2+3, 4+2, 2+4 with symbolic row numbers (< 64); heap growth modelled as 'next size class + copy' (stub realloc_size_classes)",
        "stubs": TABLES_STUBS + ["c19::growth only: std::alloc::alloc = one of four constant block sizes (8/32/128/512 bytes), alloc::alloc::realloc_nonnull = block of the next size class + copy of the old block (constant length), dealloc = no-op (so that no heap object has a symbolic size)"],
        "assumptions": COMMON_ASSUME + TABLES_ASSUME + [
            "serial index types only; the concurrent (c_*) types, freeze/unfreeze and thread interleavings are outside the claim",
            "RelFullIndexType with a key present in both delta and total: the merged value is asserted to be one of the two (which one depends on the relative sizes); generated code never creates that situation with different values",
            "RelIndexType1 merge: at most one entry in delta and one in total in the quick tier, so the size-based swap and the per-key vector swap are exercised only in their 'equal' outcome there (the 2-against-1 harnesses are in the thorough tier)",
        ],
    },
    "C18": {
        "crate": TABLES, "target": "kani-tables",
        "patterns": {"quick": ["c18s::step::find_item_from_any_state_n0", "c18s::step::find_item_from_any_state_n1", "c18s::step::find_item_from_any_state_n2",
                               "c18s::step::add_from_any_state_n0", "c18s::step::add_from_any_state_n1", "c18s::step::add_from_any_state_n2",
                               "c18s::step::union_ids_from_any_state_n1", "c18s::step::union_ids_from_any_state_n2", "c18s::step::union_ids_from_any_state_n3",
                               "c18s::step::find_item_from_any_state_n3", "c18::quick::union_find_two_adds"],
                     "thorough": ["c18s::step::find_item_from_any_state", "c18s::step::add_from_any_state", "c18s::step::union_ids_from_any_state",
                                  "c18s::step::union_add_from_any_state_n0", "c18::quick::"]},
        "min_harnesses": {"quick": 11, "thorough": 14},
        "jobs": 6, "timeout": {"quick": 1500, "thorough": 3600},
        "extra": ["-Z", "stubbing"], "env": {"RUSTFLAGS": "--cfg ascent_verif"},
        "level": "model_checking",
        "functions": ["ascent_byods_rels::uf::UnionFind::{add, find_item, find, union, union_add, len} and uf::elems::{Elems::find (path halving), Elems::push, Elem::union, Elem::union_by_rank}, every debug_assert! inside them",
                      "NOT covered: ascent_byods_rels::trrel_union_find::TrRelUnionFind (no harness over it produces a verdict: one `add` over 2 elements from the empty structure has none in 600 s); add_clone / union_add_clone (same bodies as add / union_add up to a clone)"],
        "bounds": "inductive step: the pre-state is ARBITRARY (hook H4 builds the real UnionFind<u8> from symbolic parent / next / rank / value / item-table contents; the harness assumes the representation invariant `inv` of kani/tables/src/c18s.rs, i.e. Elems::ok made inductive) with N0 elements, N0 = 0..3 (quick tier: `add` only up to 2); ONE real operation with symbolic operands (values < 6, ids < N0); asserted: `inv` again, the partition of the values after the operation, the returned id. Because `inv` is re-established, histories of any length over states of at most that many elements stay inside it. union_add (= add; add; union) is only decided from the empty state (c18s::step::union_add_from_any_state_n0, c18::quick::union_find_one_union; thorough tier): from a non-empty symbolic state it exceeds 35M SAT variables. unwind = elements + 2",
        "stubs": TABLES_STUBS + HEAP_STUBS,
        "assumptions": COMMON_ASSUME + TABLES_ASSUME + [
            "representation invariant assumed for the pre-state: pointers in range, parent forest acyclic, ranks strictly increasing towards the root and < class size, `next` = exactly one cycle per class, distinct values, item table maps every value to an id of its own class (kani/tables/src/c18s.rs St::inv); it is asserted for the post-state, so it is inductive for add / find_item / find / union within the bound",
            "states with more than 3 elements and the TrRelUnionFind half of the property are outside the claim",
        ],
    },
}


def role_of(prop, harness, failed, detail=None):
    """Describe a counterexample by role for the known-findings matcher."""
    panic = ""
    if isinstance(detail, list):
        for d in detail:
            if d.get("panic"):
                panic = d["panic"]
                break
    return {"harness_group": re.sub(r"_n\d+$", "", harness.split("::")[-1]),
            "harness": harness,
            "check": failed[0] if failed else "",
            "panic_site": (re.search(r"panicked at ([^:\s]+:\d+)", panic) or [None, ""])[1]}


def check(prop, tier, only=None):
    cfg = PROPS[prop]
    t0 = time.time()
    patterns = cfg["patterns"][tier] if not only else [only]
    target = C.keyed_target_dir(cfg["target"])
    log = os.path.join(C.CACHE, "logs", "%s-%s%s.log" % (prop, tier, ("-" + C.RUN) if C.RUN else ""))
    g = K.run_group(cfg["crate"], target, patterns, jobs=cfg.get("jobs", 8), timeout=cfg["timeout"][tier],
                    extra=cfg.get("extra"), env_extra=cfg.get("env"), log=log)
    results = g["results"]
    inconclusive, violations, known = [], [], []
    discharged, samples, solver_time = 0, [], 0.0
    replays_done = 0
    if g["build_failed"]:
        inconclusive.append("harness crate failed to build against /repo (API drift?) — see " + log)
    if g["timed_out"]:
        inconclusive.append("group timed out after %ss" % cfg["timeout"][tier])
    if not only and len(results) < cfg["min_harnesses"][tier]:
        inconclusive.append("only %d harnesses ran, expected >= %d" % (len(results), cfg["min_harnesses"][tier]))
    cex = []
    for h in sorted(results):
        r = results[h]
        solver_time += r["time"] or 0.0
        kind, why = K.classify(r)
        if kind == "discharged":
            discharged += 1
            if len(samples) < 6:
                samples.append({"harness": h, "checks": r["checks"], "covers": [r["covers_sat"], r["covers_total"]],
                                "solver_s": r["time"], "verdict": "unsat (SUCCESSFUL)"})
        elif kind == "counterexample":
            cex.append((h, why))
        else:
            inconclusive.append("%s: %s" % (h, why))
    if cex:
        pb = K.concrete_playback_batch(cfg["crate"], [h for h, _ in cex], prop, env_extra=cfg.get("env"), extra=cfg.get("extra"))
        for h, why in cex:
            reproduced, text, detail = pb[h]
            replays_done += 1
            if reproduced:
                path = C.save_replay(prop, h + ".rs", text)
                role = role_of(prop, h, results[h]["failed"], detail)
                kf = C.match_known(prop, role)
                if kf:
                    known.append("%s [%s]" % (kf["key"], h))
                else:
                    violations.append(path)
                samples.append({"harness": h, "verdict": "counterexample reproduced natively", "failed": results[h]["failed"][:3]})
            else:
                inconclusive.append("%s: counterexample (%s) did not reproduce natively: %s" % (h, why, str(detail)[:300]))
    n = len(results)
    cov = {
        "evaluations": max(n, 1),
        "distinct_nontrivial": discharged,
        "rule": "one solver query (CBMC/cadical) per Kani proof harness; a harness counts as non-trivial when it was decided SUCCESSFUL with every kani::cover! reachability witness SATISFIED",
        "obligations": n,
        "discharged": discharged,
        "samples": samples or [{"note": "no harness ran"}],
        "traces_validated_against_impl": replays_done,
        "checker_cmd": g["cmd"],
        "trusted_base": ["Kani 0.68.0", "CBMC 6.11.0 + cadical", "rustc MIR of the pinned Kani toolchain"] + cfg.get("trusted", []),
        "functions_encoded": cfg["functions"],
        "bounds": cfg["bounds"],
        "stubs": cfg["stubs"],
        "queries_discharged": discharged,
        "solver_time_s": round(solver_time, 2),
        "repo_fingerprint": C.repo_fingerprint(),
        "exhaustive": False,
        "inconclusive": inconclusive[:20],
        "known_findings_hit": known,
    }
    C.write_evidence(prop, tier, cfg["level"], cov, cfg["assumptions"], time.time() - t0, violations=len(violations))
    print("%s %s: %d harnesses, %d discharged, %d known, %d violations, %d inconclusive, solver %.1fs, wall %.1fs" % (
        prop, tier, n, discharged, len(known), len(violations), len(inconclusive), solver_time, time.time() - t0))
    return C.finish(prop, violations, known, inconclusive)


def replay(prop, path):
    print(open(path).read())
    print("To replay: see the header of the file (Kani concrete playback).")
    return 0
