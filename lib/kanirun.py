"""Engine A driver: run Kani harness groups, classify, replay counterexamples natively."""
import os, re, shutil, time, json
from . import common as C


def parse_kani_output(txt):
    """Return {harness: {status, time, failed, covers_sat, covers_total, checks}} from
    `cargo kani [-j N] --output-format terse` output."""
    res = {}
    cur = {}  # thread -> harness
    lines = txt.splitlines()
    i = 0
    active = None  # harness whose block we are in

    def get(h):
        return res.setdefault(h, {"status": None, "time": None, "failed": [], "covers_sat": None,
                                  "covers_total": None, "checks": None, "raw": []})

    while i < len(lines):
        ln = lines[i]
        m = re.match(r"^(?:Thread (\d+): )?Checking harness (\S+?)\.\.\.", ln)
        if m:
            th = m.group(1) or "_"
            cur[th] = m.group(2)
            get(m.group(2))
            active = m.group(2) if m.group(1) is None else None
            i += 1
            continue
        m = re.match(r"^Thread (\d+): *$", ln)
        if m:
            active = cur.get(m.group(1))
            i += 1
            continue
        if ln.startswith("Manual Harness Summary") or ln.startswith("Complete - "):
            active = None
        if active:
            r = get(active)
            r["raw"].append(ln)
            m = re.match(r"^ \*\* (\d+) of (\d+) failed", ln)
            if m:
                r["checks"] = int(m.group(2))
            m = re.match(r"^ \*\* (\d+) of (\d+) cover properties satisfied", ln)
            if m:
                r["covers_sat"], r["covers_total"] = int(m.group(1)), int(m.group(2))
            m = re.match(r"^Failed Checks: (.*)", ln)
            if m:
                r["failed"].append(m.group(1).strip())
            m = re.match(r"^VERIFICATION:- (\w+)", ln)
            if m:
                r["status"] = m.group(1)
            m = re.match(r"^CBMC failed with status (\d+)", ln)
            if m:
                r["failed"].append("CBMC failed with status " + m.group(1))
            m = re.match(r"^Verification Time: ([\d.]+)s", ln)
            if m:
                r["time"] = float(m.group(1))
        i += 1
    for r in res.values():
        r["raw"] = "\n".join(r["raw"][-40:])
    return res


def classify(r):
    """-> 'discharged' | 'counterexample' | 'inconclusive' with a reason."""
    if r["status"] == "SUCCESSFUL":
        if r["covers_total"] is not None and r["covers_sat"] != r["covers_total"]:
            return "inconclusive", "vacuity witness: %s of %s covers satisfied" % (r["covers_sat"], r["covers_total"])
        return "discharged", ""
    if r["status"] == "FAILED":
        fails = r["failed"]
        if not fails:
            return "inconclusive", "FAILED without failed checks (solver error / OOM?)"
        if any("CBMC failed" in f for f in fails):
            return "inconclusive", "; ".join(fails)
        if any("unwinding assertion" in f for f in fails):
            return "inconclusive", "unwinding assertion failed (bound too small): " + "; ".join(fails[:3])
        if any("capacity of the table model" in f for f in fails):
            return "inconclusive", "table-model capacity exceeded (bound too small)"
        if all(("not currently supported by Kani" in f) or ("unsupported" in f.lower()) for f in fails):
            return "inconclusive", "unsupported construct reached: " + "; ".join(fails[:3])
        return "counterexample", "; ".join(fails[:4])
    return "inconclusive", "no verdict (timeout / killed / build error)"


def kani_cmd(target_dir, patterns, jobs, extra=None, exact=False):
    cmd = ["cargo", "kani", "--target-dir", target_dir, "--output-format", "terse"]
    if jobs and jobs > 1:
        cmd += ["-j", str(jobs)]
    for p in patterns:
        cmd += ["--harness", p]
    if exact:
        cmd += ["--exact"]
    if extra:
        cmd += extra
    return cmd


def crate_for_repo(crate_dir):
    """the harness crates name /repo in their path dependencies; for a side run against another copy of the
    repository (VERIF_REPO) a copy of the crate with rewritten paths is used"""
    if C.REPO == "/repo":
        return crate_dir
    dst = os.path.join(C.CACHE, "sideruns", C.RUN or "x", "crate-" + os.path.basename(crate_dir))
    if os.path.exists(dst):
        shutil.rmtree(dst)
    shutil.copytree(crate_dir, dst, ignore=shutil.ignore_patterns("target", ".cache"))
    fix_relative_paths(os.path.join(dst, "Cargo.toml"), crate_dir)
    with open(os.path.join(dst, "Cargo.toml")) as f:
        txt = f.read()
    with open(os.path.join(dst, "Cargo.toml"), "w") as f:
        f.write(txt.replace('"/repo/', '"%s/' % C.REPO))
    lock = os.path.join(C.REPO, "Cargo.lock")
    if os.path.exists(lock):
        shutil.copy(lock, os.path.join(dst, "Cargo.lock"))
    return dst


def run_group(crate_dir, target_dir, patterns, jobs=8, timeout=1500, extra=None, env_extra=None, mem_kb=14_000_000,
              log=None, exact=False):
    crate_dir = crate_for_repo(crate_dir)
    env = C.env_offline(env_extra)
    # refresh the lock file from /repo (path dependencies resolve against it)
    lock_src = os.path.join(C.REPO, "Cargo.lock")
    if os.path.exists(lock_src) and not os.path.exists(os.path.join(crate_dir, "Cargo.lock")):
        shutil.copy(lock_src, os.path.join(crate_dir, "Cargo.lock"))
    cmd = kani_cmd(target_dir, patterns, jobs, extra, exact)
    rc, out, wall = C.run(cmd, cwd=crate_dir, env=env, timeout=timeout, mem_kb=mem_kb, log=log)
    res = parse_kani_output(out)
    build_failed = ("error: could not compile" in out) or ("error[E" in out and "Checking harness" not in out)
    return {"rc": rc, "wall": wall, "results": res, "build_failed": build_failed, "timed_out": rc == -9,
            "cmd": " ".join(cmd), "tail": "\n".join(out.splitlines()[-30:])}


def concrete_playback_batch(crate_dir, harnesses, prop, env_extra=None, extra=None, timeout=1500, jobs=8,
                            lib_rs="src/lib.rs"):
    """Re-run the failing harnesses with `--concrete-playback=print`, put the generated unit
    tests into a module of a scratch copy of the harness crate and execute them natively
    (`cargo kani playback`, dev and release).  Harness functions must be `pub`.
    Returns {harness: (reproduced: bool|None, replay_text, details)}."""
    scratch = os.path.join(C.CACHE, "replay" + ("-" + C.RUN if C.RUN else ""), prop, "crate")
    if os.path.exists(scratch):
        shutil.rmtree(scratch)
    shutil.copytree(crate_dir, scratch, ignore=shutil.ignore_patterns("target", ".cache"))
    fix_relative_paths(os.path.join(scratch, "Cargo.toml"), crate_dir)
    if C.REPO != "/repo":
        with open(os.path.join(scratch, "Cargo.toml")) as f:
            txt = f.read()
        with open(os.path.join(scratch, "Cargo.toml"), "w") as f:
            f.write(txt.replace('"/repo/', '"%s/' % C.REPO))
    env = C.env_offline(env_extra)
    tdir = C.keyed_target_dir("kani-playback-" + os.path.basename(crate_dir), keep=2)
    base_cmd = ["cargo", "kani", "--target-dir", tdir, "--output-format", "terse", "--exact", "-Z", "concrete-playback",
                "--concrete-playback=print"] + (extra or [])

    def gen(h):
        return C.run(base_cmd + ["--harness", h], cwd=scratch, env=env, timeout=timeout, mem_kb=40_000_000)[1]

    # --concrete-playback is incompatible with -j: first harness alone (builds), the rest in a small pool
    outs = [gen(harnesses[0])]
    if len(harnesses) > 1:
        from concurrent.futures import ThreadPoolExecutor
        with ThreadPoolExecutor(max_workers=jobs) as ex:
            outs += list(ex.map(gen, harnesses[1:]))
    out = "\n".join(outs)
    with open(os.path.join(C.CACHE, "logs", "%s-playback-gen.log" % prop), "w") as f:
        f.write(out)
    tests = {}  # harness -> [(testname, check, text)]
    for m in re.finditer(r"Concrete playback unit test for `([^`]+)`:\s*\n```\n(.*?)\n```", out, re.S):
        h, text = m.group(1), m.group(2)
        mm = re.search(r"Check for `(\w+)`: \"(.*)", text)
        kind, desc = (mm.group(1), mm.group(2).strip().rstrip('"')[:200]) if mm else ("?", "?")
        if kind == "cover":
            continue
        # the doc comment may span several lines (multi-line assertion text): keep only the test itself
        if "#[test]" in text:
            text = "/// Kani concrete playback for `%s` (check: %s)\n" % (h, desc.replace("\n", " ")) + text[text.index("#[test]"):]
        tn = re.search(r"fn (kani_concrete_playback_\w+)\(\)", text).group(1)
        fn = h.split("::")[-1]
        text = re.sub(r"concrete_playback_run\(concrete_vals, %s\)" % re.escape(fn),
                      "concrete_playback_run(concrete_vals, crate::%s)" % h, text)
        tests.setdefault(h, []).append((tn, desc, text))
    result = {}
    if not tests:
        for h in harnesses:
            result[h] = (None, out[-2000:], "no playback test generated")
        return result
    mod = ["// generated by /verif/lib/kanirun.py — Kani concrete playback tests", "#![allow(unused)]"]
    for h in tests:
        for tn, desc, text in tests[h][:2]:
            mod.append(text)
    with open(os.path.join(scratch, "src", "vp_playback.rs"), "w") as f:
        f.write("\n".join(mod) + "\n")
    with open(os.path.join(scratch, lib_rs), "a") as f:
        f.write("\n#[cfg(kani)]\nmod vp_playback;\n")
    runs = {}
    # `cargo kani playback` has no --release: the release profile is emulated by overriding the dev profile
    rel_env = {"CARGO_PROFILE_DEV_OPT_LEVEL": "3", "CARGO_PROFILE_DEV_DEBUG_ASSERTIONS": "false",
               "CARGO_PROFILE_DEV_OVERFLOW_CHECKS": "false"}
    for prof in ("dev", "release"):
        cmdp = ["cargo", "kani", "playback", "-Z", "concrete-playback", "--", "vp_playback", "--test-threads", "4"]
        e2 = dict(env)
        if prof == "release":
            e2.update(rel_env)
        rc2, out2, _ = C.run(cmdp, cwd=scratch, env=e2, timeout=timeout,
                             log=os.path.join(C.CACHE, "logs", "%s-playback-%s.log" % (prop, prof)))
        runs[prof] = out2
    for h in harnesses:
        if h not in tests:
            result[h] = (None, "", "no playback test generated for this harness")
            continue
        details, reproduced = [], False
        for tn, desc, text in tests[h][:2]:
            for prof, out2 in runs.items():
                m = re.search(r"test \S*%s \.\.\. (\w+)" % re.escape(tn), out2)
                st = m.group(1) if m else "not-run"
                pm = re.search(r"thread '\S*%s' \(\d+\) (panicked at [^\n]*\n[^\n]*)" % re.escape(tn), out2)
                details.append({"test": tn, "check": desc, "profile": prof, "native": st,
                                "panic": (pm.group(1)[:400] if pm else "")})
                if st == "FAILED":
                    reproduced = True
        if all(d["native"] == "not-run" for d in details):
            result[h] = (None, "", "playback did not run: " + runs["dev"][-1500:])
            continue
        replay_text = ("// Kani concrete playback for harness %s (property %s)\n// harness crate: %s\n"
                       "// replay: copy the harness crate, save the test(s) below as src/vp_playback.rs, add\n"
                       "//   `#[cfg(kani)] mod vp_playback;` to src/lib.rs and run\n"
                       "//   `cargo kani playback -Z concrete-playback -- vp_playback` (add --release for the release profile)\n\n"
                       % (h, prop, crate_dir)) + "\n".join(t[2] for t in tests[h][:2]) + \
            "\n/* native results:\n" + json.dumps(details, indent=1) + "\n*/\n"
        result[h] = (reproduced, replay_text, details)
    shutil.rmtree(scratch, ignore_errors=True)
    return result


def read_all_rs(d):
    out = []
    for root, _, fs in os.walk(os.path.join(d, "src")):
        for f in fs:
            if f.endswith(".rs"):
                with open(os.path.join(root, f)) as fh:
                    out.append(fh.read())
    return "\n".join(out)


def fix_relative_paths(cargo_toml, orig_dir):
    with open(cargo_toml) as f:
        s = f.read()

    def repl(m):
        p = m.group(2)
        if os.path.isabs(p):
            return m.group(0)
        return m.group(1) + os.path.normpath(os.path.join(orig_dir, p)) + m.group(3)

    s2 = re.sub(r'(path\s*=\s*")([^"]+)(")', repl, s)
    with open(cargo_toml, "w") as f:
        f.write(s2)
