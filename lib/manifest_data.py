"""What MANIFEST.json says (kept next to the code that implements it)."""

HOOKS = {
    "guard": "ascent_verif",
    "enable": "RUSTFLAGS=\"--cfg ascent_verif\" (set by check.py for the harness crates that need the hooks)",
    "baseline_off_cmd": "cd /repo && cargo test --workspace --no-fail-fast --offline",
    "source_commits": [],
    "add_only": True,
}

ENGINES = [
    {"name": "kani", "path": "/verif/kani", "serves_properties": ["C16", "C17"],
     "kind_free_text": "Kani 0.68 / CBMC 6.11 proof harnesses over the real ascent_base / ascent code (path dependencies on /repo), symbolic inputs via kani::any(), bounded by #[kani::unwind]; counterexamples replayed natively with Kani concrete playback"},
]

NOTES = "All checks go through ./check.py <id> --tier quick|thorough; exit 0 pass, 1 VIOLATION (natively reproduced), 2 inconclusive (never reported as a pass). See DESIGN.md."

KANI_NOTE = "Trusted: Kani 0.68 / CBMC 6.11 + cadical, rustc MIR of Kani's pinned toolchain; bounds and stubs as listed in the evidence file; counterexamples are reported only after native concrete playback (dev + release-like profile)."

CLAIMED = {
    "C16": {
        "engine": "kani", "level": "model_checking", "design_ref": "DESIGN.md §5 C16",
        "technique": "bounded model checking (Kani/CBMC SAT) of the real Lattice impls over kani::any() pairs/triples",
        "text": "Every lattice law of the property is an assertion over symbolic pairs/triples of values of one concrete instantiation; CBMC decides it for all values of the full bit-width (no loops, so the bound is the instantiation list itself). Set/BoundedSet over small carriers.",
        "note": KANI_NOTE + " bool-bearing instantiations excluded (Kani mis-encodes bool <=/>=; stated in DESIGN.md §5 C16).",
    },
    "C17": {
        "engine": "kani", "level": "model_checking", "design_ref": "DESIGN.md §5 C17",
        "technique": "bounded model checking (Kani/CBMC SAT) of ascent::aggregators over symbolic input multisets and symbolic percentile parameter",
        "text": "The aggregator functions are run on symbolic inputs (<=4 items, symbolic length, full value range) and compared with reference folds inside the harness; percentile additionally over every integer percent and every f64 in [0,100].",
        "note": KANI_NOTE + " Inputs longer than 4 items outside the claim; sum assumes no overflow.",
    },
}

PENDING = "engine part not built yet (see DESIGN.md §10 order of implementation); not claimed until its check exists"
NOT_APPLICABLE = {
    "C01": PENDING, "C03": PENDING, "C04": PENDING, "C05": PENDING, "C06": PENDING, "C07": PENDING, "C08": PENDING,
    "C09": PENDING, "C10": PENDING, "C11": PENDING, "C12": PENDING, "C13": PENDING, "C14": PENDING, "C18": PENDING, "C19": PENDING,
    "C02": "quantifies over rayon/dashmap thread interleavings; no engine in this image executes Rust concurrency symbolically (Kani rejects threads); DESIGN.md §6",
    "C15": "the object is a compile-time token transformer observed through rustc's exit status; nothing installed can execute syn/petgraph/the proc macro symbolically; DESIGN.md §6",
    "C20": "needs real rayon pools of different sizes and concurrently running instances; same reason as C02; DESIGN.md §6",
}
