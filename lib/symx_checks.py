"""Properties decided by Engine B (symx): symbolic execution of the macro-generated code, z3 verdict per
program over all input databases within the bound, native replay of every counterexample."""
import os, sys, time, json, random, traceback, hashlib
from concurrent.futures import ProcessPoolExecutor, as_completed
from . import common as C

sys.path.insert(0, C.VERIF)

LEVEL = "translation_validation"

TRUSTED = ["rustc nightly macro expansion + pretty printer (-Zunpretty=expanded)", "syn 2 (tools/rs2json)",
           "symx interpreter + index contract (symx/models.py; the contract is what C19 checks for the real serial index types)",
           "z3 4.x QF_FD (SAT + pseudo-boolean) solver", "reference semantics symx/lang.py (oracle, written from the documentation)"]

ASSUME = [
    "programs are a finite corpus (curated + seeded random); per program the solver decides ALL input databases over the stated universe — nothing is claimed about programs outside the corpus",
    "index types, RelIndexMerge and RelIndexCombined are replaced by their contract (multimap / set semantics, merge = total+=delta, delta=new, new=empty, len_estimate = number of keys)",
    "iteration order inside one rule evaluation is the insertion order of the model (matters only for lattice rows mutated in place)",
    "aggregator functions are replaced by their mathematical definition (the real ones are decided by C17)",
    "Lattice::join_mut is replaced by the mathematical join of the value's type (the real impls are decided by C16)",
    "counterexamples are reported only after replay on the natively compiled real program (real hash tables)",
    "when the encoding gives up because rows pile up beyond its multiplicity bound (MAXM raised up to 4), the overflowing database (or, if the executor itself stops, six random databases / crash points) is run on the real build against the reference model: a reproduced problem is reported as a violation — a native observation, not a solver verdict — otherwise the job is inconclusive (exit 2)",
    "queries whose counterexamples may be a known finding have a restricted twin that excludes the known finding's part of the input space and must be unsat as well",
]


def _progs_for(prop, tier, seed):
    """-> list of job specs: dict(prog=Program, scenario=dict(kind=..., ...), kinds=[query kinds that count], tag=str)"""
    from symx import gen
    q = tier == "quick"
    jobs = []

    def add(progs, kind, kinds, **kw):
        for p in progs:
            jobs.append({"prog": p, "scenario": dict(kind=kind, **kw), "kinds": kinds})

    if prop == "C01":
        progs = gen.c01_curated() + gen.random_programs(1000 + seed, 30, max_arity=2, max_body=2)
        if not q:
            progs += gen.random_programs(1500 + seed, 120, prefix="rndb", max_arity=2, max_body=3)
            progs += gen.random_programs(1700 + seed, 20, prefix="rndc", max_arity=3, max_body=2)
        add(progs, "run", ["mismatch", "nonterm", "panic"])
        if not q:
            # a larger universe (4 constants per column) for the binary-relation programs
            big = [p for p in gen.c01_curated() if p.name in ("tc", "tc_linear", "tc_reverse", "same_gen", "mutual2", "two_strata", "join_repeat_second")]
            for p in big:
                p.name += "__d4"
            add(big, "run", ["mismatch", "nonterm", "panic"], D=4)
    elif prop == "C05":
        progs = gen.c01_curated() + gen.random_programs(2000 + seed, 4 if q else 30)
        add(progs, "run", ["duplicate", "mismatch", "nonterm", "panic"], dup=True)
        add(gen.c03_curated(), "run", ["duplicate", "nonterm", "panic"])
    elif prop == "C03":
        add(gen.c03_curated() + gen.random_lattice_programs(3000 + seed, 4 if q else 40), "run", ["mismatch", "duplicate", "nonterm", "panic"])
    elif prop == "C04":
        add(gen.c04_curated() + gen.random_agg_programs(4000 + seed, 6 if q else 80), "run", ["mismatch", "nonterm", "panic"])
        # dedicated queries with caller-duplicated input tuples (each distinct tuple must still be aggregated once)
        dupp = [p for p in gen.c04_curated() if p.name in ("agg_count_key", "agg_sum_min_max", "agg_global")]
        for p in dupp:
            p.name += "__dup"
        add(dupp, "run", ["mismatch", "nonterm", "panic"], dup=True)
        # run() of a program compiled with #![generate_run_timeout] delegates to run_timeout: same obligations
        rtp = [p for p in gen.c04_curated() if p.name in ("agg_count_key", "agg_sum_min_max", "agg_global", "neg_basic")]
        for p in rtp:
            p.attrs.append("generate_run_timeout")
            p.name += "__rtrun"
        add(rtp, "run", ["mismatch", "nonterm", "panic"])
    elif prop == "C06":
        add(gen.c06_variants(seed, per_base=6 if q else 18), "run", ["mismatch", "nonterm", "panic"])
    elif prop == "C07":
        add(gen.c07_curated() + gen.random_programs(7000 + seed, 20 if q else 150, prefix="rsug", max_arity=2, max_body=2, sugar=True),
            "run", ["mismatch", "nonterm", "panic"])
    elif prop == "C08":
        add(gen.c08_curated() + gen.random_macro_programs(8000 + seed, 10 if q else 80), "run", ["mismatch", "nonterm", "panic"])
    elif prop == "C09":
        vs = gen.c09_variants()
        add([p for p in vs if getattr(p, "scenario", "run") == "run"], "run", ["mismatch", "nonterm", "panic"])
        add([p for p in vs if getattr(p, "scenario", "run") == "timeout"], "timeout", ["mismatch", "nonterm", "panic"])
    elif prop == "C13":
        base = gen.c01_curated() + gen.c03_curated() + gen.c04_curated()
        add(base, "rerun", ["mismatch", "nonterm", "panic"])
        # idempotence alone (second observation = first), for programs whose meaning the reference semantics
        # does not fix: equality tests on lattice values (the lattice column bound in a body clause)
        add(gen.c13_extra(), "idem", ["mismatch", "nonterm", "panic"])
        # pushes: positive programs; lattice programs only where relations read lattice values through
        # upward-closed tests (a non-monotone read of a lattice value behaves like an aggregate)
        pos = gen.c01_curated() + [p for p in gen.c03_curated() if p.name not in ("constprop", "lat_nokey")]
        heavy = [p for p in pos if p.name in ("arity3", "three_dyn", "lat_upward")]
        pos = [p for p in pos if p not in heavy]
        if not q:
            # two input sets over these exceed the node budget at D=3: universe of 2 constants
            add(heavy, "push", ["mismatch", "nonterm", "panic"], D=2)
        lat = [p for p in pos if any(r.lattice for r in p.rels)]
        add([p for p in pos if p not in lat], "push", ["mismatch", "nonterm", "panic"])
        # two symbolic input sets over a lattice program: universe of 2 constants (3 exceeds the node budget)
        add(lat, "push", ["mismatch", "nonterm", "panic"], D=2)
    elif prop == "C14":
        # (agg_lattice_value_bound is the vehicle of finding F8, a C04 matter: even an uninterrupted run is wrong)
        base = gen.c01_curated() + [p for p in gen.c04_curated() if p.name != "agg_lattice_value_bound"] + gen.c14_lattice()
        sel = base if not q else [p for p in base if p.name in ("tc", "two_strata", "mutual3", "facts_multihead", "agg_chain", "agg_over_recursive", "agg_count_key", "agg_global", "consts_repeats", "generators", "neg_basic", "lat_scan_later", "lat_sp_small")]
        for p in sel:
            p.attrs.append("generate_run_timeout")
            p.name = p.name + "__rt"
        add(sel, "timeout", ["mismatch", "nonterm", "panic"])
    else:
        raise KeyError(prop)
    # unique module names
    seen = {}
    for j in jobs:
        p = j["prog"]
        if p.name in seen and seen[p.name] is not p:
            # the generators build fresh objects per call: the same program under another scenario
            from symx import lang as _L
            if _L.program_rs(seen[p.name]) != _L.program_rs(p):
                raise RuntimeError("two different programs named " + p.name)
            j["prog"] = seen[p.name]
        else:
            seen[p.name] = p
    return jobs, list(seen.values())


PROPS = {
    "C01": {"title": "run() computes the least model", "design_ref": "DESIGN.md §5 C01"},
    "C03": {"title": "lattice relations: one row per key, least fixed point", "design_ref": "DESIGN.md §5 C03"},
    "C04": {"title": "negation / aggregation see the complete relation once", "design_ref": "DESIGN.md §5 C04"},
    "C05": {"title": "relations are sets (serial half)", "design_ref": "DESIGN.md §5 C05"},
    "C06": {"title": "invariance under reordering / renaming", "design_ref": "DESIGN.md §5 C06"},
    "C07": {"title": "surface forms = documented core expansion", "design_ref": "DESIGN.md §5 C07"},
    "C08": {"title": "in-program macros are hygienic", "design_ref": "DESIGN.md §5 C08"},
    "C09": {"title": "packaging variants are transparent", "design_ref": "DESIGN.md §5 C09"},
    "C13": {"title": "run() idempotent, monotone re-runs equal a fresh run", "design_ref": "DESIGN.md §5 C13"},
    "C14": {"title": "run_timeout stops in a sound, resumable state", "design_ref": "DESIGN.md §5 C14"},
}

_WORK = {}


def _worker(args):
    """runs in a pool process: one (program, scenario) job"""
    corpus_dir, pname, jidx, tier, prop, seed = args[:6]
    import random as _r
    from symx import corpus as Cp, driver as Dr, scenario as Sc, checker as Ck
    from symx.values import Unsupported
    t0 = time.time()
    try:
        st = _WORK.get((prop, tier, seed))
        if st is None:
            jobs, progs = _progs_for(prop, tier, seed)
            cp = Cp.Corpus("%s-%s" % (prop, tier), progs)
            cp.dir = corpus_dir
            cp.bin = os.path.join(corpus_dir, "corpus-run")
            cp.json = os.path.join(corpus_dir, "expanded.json")
            st = _WORK[(prop, tier, seed)] = (jobs, cp, {})
        jobs, cp, cache = st
        job = jobs[jidx]
        prog = job["prog"]
        with open(os.path.join(corpus_dir, "mods", prog.name + ".json")) as f:
            mod = json.load(f)
        sc = Sc.Scenario(**job["scenario"])
        sc.kinds = job["kinds"]
        Ck.CROSS_CHECK["on"] = (tier == "thorough")
        Ck.CROSS_CHECK["n"] = 0
        V = 3 if tier == "quick" else 12
        out = Ck.check_program(cp, mod, prog, sc, _r.Random(seed * 7919 + jidx), V=V)
        res = {"program": prog.name, "scenario": sc.describe(), "status": out.status, "detail": out.detail,
               "queries": [{"name": x.name, "kind": x.kind, "verdict": x.verdict, "solver_s": x.time} for x in out.queries],
               "validated": out.validated, "stats": out.stats, "cex": out.cex, "replay": out.replay,
               "cexes": [{"cex": c, "replay": r} for c, r in out.cexes], "wall_s": round(time.time() - t0, 2)}
        return jidx, res
    except Exception as e:
        return jidx, {"program": pname, "status": "inconclusive", "detail": "internal error: %s\n%s" % (e, traceback.format_exc()[-1500:]),
                      "queries": [], "validated": 0, "stats": {}, "cex": None, "replay": None, "wall_s": round(time.time() - t0, 2),
                      "scenario": {}}


def role_of(prop, job, res):
    """describe a counterexample by role (property, scenario, kind of failure, program features)"""
    from symx import lang as L
    p = job["prog"]
    feats = program_features(p)
    kinds = sorted({k for k, _ in (res.get("replay") or {}).get("problems", [])})
    # does the counterexample itself contain a caller-duplicated tuple in a relation read by a multiplicity-sensitive aggregate?
    agg_rels = set()
    for h, b in L.core_rules(p):
        for it in b:
            if isinstance(it, L.Agg) and it.agg in ("count", "sum", "mean", "wsum"):
                agg_rels.add(it.rel)
    cex_in = (res.get("cex") or {}).get("inputs") or {}
    dup_in_agg = any(len(rows) != len(set(rows)) for rn, rows in cex_in.items() if rn in agg_rels)
    dl = (res.get("cex") or {}).get("deadline_checks") or []
    sccs = (res.get("cex") or {}).get("interrupted_in_scc") or []
    safe = (res.get("cex") or {}).get("strata_owning_all_aggregated_indices") or []
    return {"cex_duplicates_tuple_in_aggregated_relation": dup_in_agg,
            "first_call_interrupted": bool(dl and dl[0] > 0),
            # an index of a count/sum/mean-aggregated relation was still in the program value when a deadline struck
            # (some interruption happened inside a stratum that does not own all of those indices)
            "an_aggregated_index_outlived_an_interruption": any(s is not None and s not in safe for s in sccs),
            "scenario": job["scenario"]["kind"], "failure": kinds[0] if kinds else "?", "dup_inputs": bool(job["scenario"].get("dup")),
            "multiplicity_sensitive_agg": feats["msagg"], "agg_over_lattice_value": feats["agg_lat_val"],
            "has_lattice": feats["lattice"], "has_agg": feats["agg"]}


def program_features(p):
    from symx import lang as L
    rules = L.core_rules(p)
    msagg = agg = agg_lat_val = False
    for h, b in rules:
        for it in b:
            if isinstance(it, L.Agg):
                agg = True
                if it.agg in ("count", "sum", "mean", "wsum"):
                    msagg = True
            if isinstance(it, (L.Agg, L.Neg)) and p.relmap[it.rel].lattice:
                last = it.args[-1]
                if not isinstance(last, L.Wild) and not (isinstance(last, L.V) and isinstance(it, L.Agg) and last.n in it.bound):
                    agg_lat_val = True
    return {"msagg": msagg, "agg": agg, "agg_lat_val": agg_lat_val, "lattice": any(r.lattice for r in p.relmap.values())}


def check(prop, tier, only=None):
    from symx import corpus as Cp, lang as L
    t0 = time.time()
    seed = C.seed()
    jobs, progs = _progs_for(prop, tier, seed)
    if only:
        keep = [i for i, j in enumerate(jobs) if only in j["prog"].name]
    else:
        keep = list(range(len(jobs)))
    cp = Cp.Corpus("%s-%s%s" % (prop, tier, ("-" + C.RUN) if C.RUN else ""), progs)
    inconclusive, violations, known = [], [], []
    try:
        cp.build()
        split_modules(cp)
    except Exception as e:
        inconclusive.append("corpus build / expansion failed: %s" % str(e)[-1500:])
        cov = {"programs": max(len(progs), 1), "disagreements_checked": 0, "samples": [{"note": "corpus did not build"}],
               "explanation": inconclusive[0][:500]}
        C.write_evidence(prop, tier, LEVEL, cov, ASSUME, time.time() - t0)
        return C.finish(prop, [], [], inconclusive)
    results = {}
    if cp.dropped:
        # programs of the corpus that no longer compile: reported, the rest is still decided
        for i in list(keep):
            nm = jobs[i]["prog"].name
            if nm in cp.dropped:
                keep.remove(i)
                inconclusive.append("%s: the generated code of this (well-formed) corpus program does not compile: %s" % (nm, cp.dropped[nm][:300]))
    workers = min(14, max(1, len(keep)))
    with ProcessPoolExecutor(max_workers=workers) as ex:
        futs = [ex.submit(_worker, (cp.dir, jobs[i]["prog"].name, i, tier, prop, seed)) for i in keep]
        for f in as_completed(futs):
            i, res = f.result()
            results[i] = res
    samples, nq, nunsat, solver_s, validated = [], 0, 0, 0.0, 0
    nontrivial = 0
    for i in keep:
        res, job = results[i], jobs[i]
        kinds = job["kinds"]
        qs = res["queries"]
        nq += len(qs)
        nunsat += sum(1 for x in qs if x["verdict"] == "unsat")
        solver_s += sum(x["solver_s"] or 0 for x in qs) + (res["stats"].get("unroll_solver_s") or 0)
        validated += res["validated"]
        st = res["status"]
        if st == "ok":
            rf = res["stats"].get("rules_fireable", [0, 0])
            if res["stats"].get("input_vars", 0) > 0 and rf[0] > 0:
                nontrivial += 1
        elif st == "violation":
            # every natively reproduced counterexample of the job is classified on its own
            cexes = res.get("cexes") or [{"cex": res.get("cex"), "replay": res.get("replay")}]
            any_rel = False
            for n_, cr in enumerate(cexes):
                probs = (cr["replay"] or {}).get("problems", [])
                relevant = [pr for pr in probs if pr[0] in kinds]
                if not relevant:
                    continue   # a reproduced defect of a kind this property does not speak about
                any_rel = True
                one = dict(res)
                one["cex"], one["replay"] = cr["cex"], cr["replay"]
                role = role_of(prop, job, one)
                rp = C.save_replay(prop, "%s-%s%s.json" % (res["program"], job["scenario"]["kind"], ("-%d" % n_) if n_ else ""),
                                   json.dumps({"property": prop, "program": res["program"], "program_text": L.program_rs(job["prog"]),
                                               "scenario": res["scenario"], "counterexample": cr["cex"], "replay": cr["replay"], "role": role}, indent=1, default=str))
                kf = C.match_known(prop, role)
                if kf:
                    known.append("%s [program %s, scenario %s]" % (kf["key"], res["program"], job["scenario"]["kind"]))
                else:
                    violations.append(rp)
            if not any_rel:
                res["status"] = "ok"
                res["detail"] = "(other-property finding ignored here: %s)" % res["detail"][:200]
        else:
            inconclusive.append("%s/%s: %s" % (res["program"], job["scenario"].get("kind"), res["detail"][:400]))
        if len(samples) < 5 or st != "ok":
            if len(samples) < 12:
                samples.append({"program": res["program"], "text": L.program_rs(job["prog"]), "scenario": res["scenario"], "status": res["status"],
                                "queries": qs, "stats": res["stats"], "validated_dbs": res["validated"], "detail": res["detail"][:300]})
    extra_cov = {}
    if prop == "C09" and not only:
        # segment-codegen: Kani harness over ascent::internal::run_rule, built with and without the feature
        from . import kanirun as K
        from . import kani_checks as KC
        for feat, tdir in (([], "kani-base"), (["--features", "seg"], "kani-base-seg")):
            g = K.run_group(KC.BASE, C.keyed_target_dir(tdir), ["c09::"], jobs=1, timeout=900, extra=feat,
                            env_extra={"RUSTFLAGS": "--cfg ascent_verif"},
                            log=os.path.join(C.CACHE, "logs", "C09-kani-%s.log" % ("seg" if feat else "default")))
            rs = g["results"]
            okk = [h for h, r in rs.items() if K.classify(r)[0] == "discharged"]
            extra_cov["run_rule_harness_" + ("segment_codegen" if feat else "default")] = {"harnesses": sorted(rs), "discharged": okk, "cmd": g["cmd"]}
            nq += len(rs)
            nunsat += len(okk)
            if len(okk) != 1 or g["build_failed"] or g["timed_out"]:
                inconclusive.append("run_rule harness (%s): %s" % ("segment-codegen" if feat else "default", [K.classify(r) for r in rs.values()] or g["tail"][-300:]))
    known = sorted(set(known))
    cov = {
        "programs": len(keep),
        "disagreements_checked": validated,
        "samples": samples,
        "evaluations": nq,
        "distinct_nontrivial": nontrivial,
        "rule": "one (program, scenario) job = symbolic execution of the expanded code + oracle + z3 queries over ALL input databases of the universe; non-trivial = decided 'ok' with at least one symbolic input variable",
        "obligations": nq, "discharged": nunsat,
        "checker_cmd": "./check.py %s --tier %s" % (prop, tier),
        "trusted_base": TRUSTED,
        "functions_encoded": ["<Program>::run / run_timeout / update_indices_priv / Default::default as generated by ascent_macro for every corpus program (expanded text, regenerated from /repo on every run)"],
        "bounds": "universe D=3 constants per input column; all 2^n input databases (n = input_vars per program, see samples); fixpoint loops unrolled adaptively until the solver proves no database reaches the next iteration (K_max=64, otherwise an unwinding obligation is reported); row multiplicity <= MAXM (2..4, overflow obligation discharged by the solver)",
        "solver_time_s": round(solver_s, 2),
        "solvers": ["z3 (python API) — verdict of every query", "cvc5 (thorough tier: every query re-decided, any disagreement = inconclusive)"],
        "cvc5_cross_checked": sum((results[i]["stats"].get("cvc5_cross_checked") or 0) for i in keep),
        "corpus_build": cp.stats,
        "repo_fingerprint": C.repo_fingerprint(),
        "exhaustive": False,
        "inconclusive": inconclusive[:20],
        "known_findings_hit": known,
        "extra": extra_cov,
        "jobs": [{"program": results[i]["program"], "scenario": jobs[i]["scenario"]["kind"], "status": results[i]["status"],
                  "input_vars": results[i]["stats"].get("input_vars"), "steps": results[i]["stats"].get("steps"),
                  "loop_iters": results[i]["stats"].get("loop_iters"), "rules_fireable": results[i]["stats"].get("rules_fireable"),
                  "validated_dbs": results[i]["validated"], "wall_s": results[i]["wall_s"]} for i in keep],
    }
    C.write_evidence(prop, tier, LEVEL, cov, ASSUME, time.time() - t0, violations=len(violations))
    print("%s %s: %d jobs, %d queries (%d unsat), %d validated DBs, %d known, %d violations, %d inconclusive, wall %.1fs" % (
        prop, tier, len(keep), nq, nunsat, validated, len(known), len(violations), len(inconclusive), time.time() - t0))
    return C.finish(prop, violations, known, inconclusive)


def split_modules(cp):
    """one JSON file per program module (workers load only what they need); keyed by the content of the expansion"""
    d = os.path.join(cp.dir, "mods")
    stamp = os.path.join(d, ".stamp")
    with open(cp.json, "rb") as f:
        digest = hashlib.sha256(f.read()).hexdigest()
    if os.path.exists(stamp) and open(stamp).read().strip() == digest:
        return
    if os.path.isdir(d):
        import shutil
        shutil.rmtree(d)
    os.makedirs(d, exist_ok=True)
    ast = cp.load_ast()
    for it in ast["items"]:
        if it["k"] == "mod" and it.get("items") is not None:
            with open(os.path.join(d, it["name"] + ".json"), "w") as f:
                json.dump(it, f)
    with open(stamp, "w") as f:
        f.write(digest)


def replay(prop, path):
    """re-run a saved counterexample on the natively compiled real program (current /repo working tree) and
    compare with the reference model: exit 1 if the violation is still there, 0 if it no longer reproduces"""
    from symx import corpus as Cp, scenario as Sc, checker as Ck
    rec = json.load(open(path))
    print(json.dumps({k: rec[k] for k in ("property", "program", "scenario", "counterexample")}, indent=1, default=str))
    print("program text:\n   " + rec["program_text"])
    print("script:\n  " + "\n  ".join(rec["replay"]["script"]))
    tier = "quick"
    seed = C.seed()
    prog = None
    for t in ("quick", "thorough"):
        jobs, progs = _progs_for(prop, t, seed)
        for p in progs:
            if p.name == rec["program"]:
                prog, tier = p, t
                break
        if prog:
            break
    if prog is None:
        print("program %s is not in the current corpus of %s; recorded native output was:\n%s" % (rec["program"], prop, rec["replay"].get("native_output")))
        return 2
    cp = Cp.Corpus("%s-replay" % prop, [prog])
    cp.build()
    out = cp.run_native([(prog.name, rec["replay"]["script"])], timeout=60)[0]
    print("native output now:\n" + out)
    print("expected (least model):", rec["replay"].get("expected"))
    sc = Sc.Scenario(**{k: v for k, v in (("kind", rec["scenario"]["kind"]),)})
    # recompute the comparison with the recorded inputs
    from symx.corpus import parse_dump
    import ast as _ast

    def parse_rows(d):
        from symx.values import TS, NONE
        env = {"Some": lambda v: TS("Some", v), "None": NONE, "Dual": lambda v: TS("Dual", v), "Reverse": lambda v: TS("Reverse", v),
               "Constant": lambda v: TS("Constant", v), "Top": TS("Top"), "Bottom": TS("Bottom"), "true": True, "false": False}
        return {k: [eval(t, {"__builtins__": {}}, env) for t in v] for k, v in (d or {}).items()}
    dbA = parse_rows(rec["counterexample"].get("inputs"))
    dbB = parse_rows(rec["counterexample"].get("pushed")) if rec["counterexample"].get("pushed") else None
    if out.strip() == "PANIC":
        print("REPRODUCED: native run panicked")
        return 1
    dumps, rets = parse_dump(out)
    expected = sc.expected_concrete(prog, dbA, dbB)
    problems = Ck.compare_native(prog, sc, dumps, rets, expected, dbA, dbB, "mismatch")
    if problems:
        print("REPRODUCED:", "; ".join(t for _, t in problems[:4]))
        return 1
    print("not reproduced on the current tree")
    return 0
