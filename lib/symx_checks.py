"""Properties decided by Engine B (symx).  Filled in as the engine lands."""
PROPS = {}


def check(prop, tier, only=None):
    return 2


def replay(prop, path):
    return 2
