// Kani concrete playback for harness c16::b_product_arr2::bounded (property C16)
// harness crate: /verif/kani/base
// replay: copy the harness crate, save the test(s) below as src/vp_playback.rs, add
//   `#[cfg(kani)] mod vp_playback;` to src/lib.rs and run
//   `cargo kani playback -Z concrete-playback -- vp_playback` (add --release for the release profile)

/// Kani concrete playback for `c16::b_product_arr2::bounded` (check: assertion failed: T::bottom().join(a.clone()) == a)
#[test]
fn kani_concrete_playback_bounded_7556202178068946614() {
    let concrete_vals: Vec<Vec<u8>> = vec![
        // 1
        vec![1],
        // 128
        vec![128],
    ];
    kani::concrete_playback_run(concrete_vals, crate::c16::b_product_arr2::bounded);
}
/// Kani concrete playback for `c16::b_product_arr2::bounded` (check: assertion failed: T::top().meet(a.clone()) == a)
#[test]
fn kani_concrete_playback_bounded_3651889978446853956() {
    let concrete_vals: Vec<Vec<u8>> = vec![
        // 0
        vec![0],
        // 0
        vec![0],
    ];
    kani::concrete_playback_run(concrete_vals, crate::c16::b_product_arr2::bounded);
}
/* native results:
[
 {
  "test": "kani_concrete_playback_bounded_7556202178068946614",
  "check": "assertion failed: T::bottom().join(a.clone()) == a",
  "profile": "dev",
  "native": "FAILED",
  "panic": "panicked at src/c16.rs:77:4:\nassertion failed: T::bottom().join(a.clone()) == a"
 },
 {
  "test": "kani_concrete_playback_bounded_7556202178068946614",
  "check": "assertion failed: T::bottom().join(a.clone()) == a",
  "profile": "release",
  "native": "FAILED",
  "panic": "panicked at src/c16.rs:77:4:\nassertion failed: T::bottom().join(a.clone()) == a"
 },
 {
  "test": "kani_concrete_playback_bounded_3651889978446853956",
  "check": "assertion failed: T::top().meet(a.clone()) == a",
  "profile": "dev",
  "native": "FAILED",
  "panic": "panicked at src/c16.rs:78:4:\nassertion failed: T::top().meet(a.clone()) == a"
 },
 {
  "test": "kani_concrete_playback_bounded_3651889978446853956",
  "check": "assertion failed: T::top().meet(a.clone()) == a",
  "profile": "release",
  "native": "FAILED",
  "panic": "panicked at src/c16.rs:78:4:\nassertion failed: T::top().meet(a.clone()) == a"
 }
]
*/
