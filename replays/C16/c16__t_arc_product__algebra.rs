// Kani concrete playback for harness c16::t_arc_product::algebra (property C16)
// harness crate: /verif/kani/base
// replay: copy the harness crate, save the test(s) below as src/vp_playback.rs, add
//   `#[cfg(kani)] mod vp_playback;` to src/lib.rs and run
//   `cargo kani playback -Z concrete-playback -- vp_playback` (add --release for the release profile)

/// Kani concrete playback for `c16::t_arc_product::algebra` (check: assertion failed: a.clone().join(b.clone()).join(c.clone()) ==)
#[test]
fn kani_concrete_playback_algebra_15507178777827801145() {
    let concrete_vals: Vec<Vec<u8>> = vec![
        // 117
        vec![117],
        // 111
        vec![111],
        // 1
        vec![1],
        // 37
        vec![37],
        // 123
        vec![123],
        // 36
        vec![36],
    ];
    kani::concrete_playback_run(concrete_vals, crate::c16::t_arc_product::algebra);
}
/// Kani concrete playback for `c16::t_arc_product::algebra` (check: assertion failed: a.clone().meet(a.clone().join(b.clone())) == a)
#[test]
fn kani_concrete_playback_algebra_93769969268187023() {
    let concrete_vals: Vec<Vec<u8>> = vec![
        // 0
        vec![0],
        // 29
        vec![29],
        // 1
        vec![1],
        // 12
        vec![12],
        // 1
        vec![1],
        // 159
        vec![159],
    ];
    kani::concrete_playback_run(concrete_vals, crate::c16::t_arc_product::algebra);
}
/* native results:
[
 {
  "test": "kani_concrete_playback_algebra_15507178777827801145",
  "check": "assertion failed: a.clone().join(b.clone()).join(c.clone()) ==",
  "profile": "dev",
  "native": "FAILED",
  "panic": "panicked at src/c16.rs:23:4:\nassertion failed: a.clone().join(b.clone()).join(c.clone()) =="
 },
 {
  "test": "kani_concrete_playback_algebra_15507178777827801145",
  "check": "assertion failed: a.clone().join(b.clone()).join(c.clone()) ==",
  "profile": "release",
  "native": "FAILED",
  "panic": "panicked at src/c16.rs:23:4:\nassertion failed: a.clone().join(b.clone()).join(c.clone()) =="
 },
 {
  "test": "kani_concrete_playback_algebra_93769969268187023",
  "check": "assertion failed: a.clone().meet(a.clone().join(b.clone())) == a",
  "profile": "dev",
  "native": "FAILED",
  "panic": "panicked at src/c16.rs:30:4:\nassertion failed: a.clone().meet(a.clone().join(b.clone())) == a"
 },
 {
  "test": "kani_concrete_playback_algebra_93769969268187023",
  "check": "assertion failed: a.clone().meet(a.clone().join(b.clone())) == a",
  "profile": "release",
  "native": "FAILED",
  "panic": "panicked at src/c16.rs:30:4:\nassertion failed: a.clone().meet(a.clone().join(b.clone())) == a"
 }
]
*/
