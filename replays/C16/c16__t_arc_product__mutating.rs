// Kani concrete playback for harness c16::t_arc_product::mutating (property C16)
// harness crate: /verif/kani/base
// replay: copy the harness crate, save the test(s) below as src/vp_playback.rs, add
//   `#[cfg(kani)] mod vp_playback;` to src/lib.rs and run
//   `cargo kani playback -Z concrete-playback -- vp_playback` (add --release for the release profile)

/// Kani concrete playback for `c16::t_arc_product::mutating` (check: assertion failed: !x.join_mut(b.clone()))
#[test]
fn kani_concrete_playback_mutating_7644070715429849195() {
    let concrete_vals: Vec<Vec<u8>> = vec![
        // 255
        vec![255],
        // 118
        vec![118],
        // 253
        vec![253],
        // 247
        vec![247],
    ];
    kani::concrete_playback_run(concrete_vals, crate::c16::t_arc_product::mutating);
}
/* native results:
[
 {
  "test": "kani_concrete_playback_mutating_7644070715429849195",
  "check": "assertion failed: !x.join_mut(b.clone())",
  "profile": "dev",
  "native": "FAILED",
  "panic": "panicked at src/c16.rs:70:4:\nassertion failed: !x.join_mut(b.clone())"
 },
 {
  "test": "kani_concrete_playback_mutating_7644070715429849195",
  "check": "assertion failed: !x.join_mut(b.clone())",
  "profile": "release",
  "native": "FAILED",
  "panic": "panicked at src/c16.rs:70:4:\nassertion failed: !x.join_mut(b.clone())"
 }
]
*/
