// Kani concrete playback for harness c16::t_arc_product::order (property C16)
// harness crate: /verif/kani/base
// replay: copy the harness crate, save the test(s) below as src/vp_playback.rs, add
//   `#[cfg(kani)] mod vp_playback;` to src/lib.rs and run
//   `cargo kani playback -Z concrete-playback -- vp_playback` (add --release for the release profile)

/// Kani concrete playback for `c16::t_arc_product::order` (check: assertion failed: le(&a, &j) && le(&b, &j))
#[test]
fn kani_concrete_playback_order_14421351314832304965() {
    let concrete_vals: Vec<Vec<u8>> = vec![
        // 223
        vec![223],
        // 140
        vec![140],
        // 135
        vec![135],
        // 159
        vec![159],
        // 128
        vec![128],
        // 4
        vec![4],
    ];
    kani::concrete_playback_run(concrete_vals, crate::c16::t_arc_product::order);
}
/* native results:
[
 {
  "test": "kani_concrete_playback_order_14421351314832304965",
  "check": "assertion failed: le(&a, &j) && le(&b, &j)",
  "profile": "dev",
  "native": "FAILED",
  "panic": "panicked at src/c16.rs:41:4:\nassertion failed: le(&a, &j) && le(&b, &j)"
 },
 {
  "test": "kani_concrete_playback_order_14421351314832304965",
  "check": "assertion failed: le(&a, &j) && le(&b, &j)",
  "profile": "release",
  "native": "FAILED",
  "panic": "panicked at src/c16.rs:41:4:\nassertion failed: le(&a, &j) && le(&b, &j)"
 }
]
*/
