// Kani concrete playback for harness c16::t_constprop_u8::mutating (property C16)
// harness crate: /verif/kani/base
// replay: copy the harness crate, save the test(s) below as src/vp_playback.rs, add
//   `#[cfg(kani)] mod vp_playback;` to src/lib.rs and run
//   `cargo kani playback -Z concrete-playback -- vp_playback` (add --release for the release profile)

/// Test generated for harness `c16::t_constprop_u8::mutating` 
///
/// Check for `assertion`: "assertion failed: ch == (x != a)"

#[test]
fn kani_concrete_playback_mutating_18425830733548322880() {
    let concrete_vals: Vec<Vec<u8>> = vec![
        // 0
        vec![0],
        // 0
        vec![0],
    ];
    kani::concrete_playback_run(concrete_vals, crate::c16::t_constprop_u8::mutating);
}
/* native results:
[
 {
  "test": "kani_concrete_playback_mutating_18425830733548322880",
  "check": "assertion failed: ch == (x != a)",
  "profile": "dev",
  "native": "FAILED",
  "panic": "panicked at src/c16.rs:64:4:\nassertion failed: ch == (x != a)"
 },
 {
  "test": "kani_concrete_playback_mutating_18425830733548322880",
  "check": "assertion failed: ch == (x != a)",
  "profile": "release",
  "native": "FAILED",
  "panic": "panicked at src/c16.rs:64:4:\nassertion failed: ch == (x != a)"
 }
]
*/
