// Kani concrete playback for harness c16::t_constprop_u8::mutating (property C16)
// harness crate: /verif/kani/base
// replay: copy the harness crate, save the test(s) below as src/vp_playback.rs, add
//   `#[cfg(kani)] mod vp_playback;` to src/lib.rs and run
//   `cargo kani playback -Z concrete-playback -- vp_playback` (add --release for the release profile)

/// Kani concrete playback for `c16::t_constprop_u8::mutating` (check: assertion failed: ch == (y != a))
#[test]
fn kani_concrete_playback_mutating_554742184460495433() {
    let concrete_vals: Vec<Vec<u8>> = vec![
        // 116
        vec![116],
        // 116
        vec![116],
    ];
    kani::concrete_playback_run(concrete_vals, crate::c16::t_constprop_u8::mutating);
}
/* native results:
[
 {
  "test": "kani_concrete_playback_mutating_554742184460495433",
  "check": "assertion failed: ch == (y != a)",
  "profile": "dev",
  "native": "FAILED",
  "panic": "panicked at src/c16.rs:68:4:\nassertion failed: ch == (y != a)"
 },
 {
  "test": "kani_concrete_playback_mutating_554742184460495433",
  "check": "assertion failed: ch == (y != a)",
  "profile": "release",
  "native": "FAILED",
  "panic": "panicked at src/c16.rs:68:4:\nassertion failed: ch == (y != a)"
 }
]
*/
