// Kani concrete playback for harness c16::t_constprop_u8::mutating (property C16)
// harness crate: /verif/kani/base
// replay: copy the harness crate, save the test(s) below as src/vp_playback.rs, add
//   `#[cfg(kani)] mod vp_playback;` to src/lib.rs and run
//   `cargo kani playback -Z concrete-playback -- vp_playback` (add --release for the release profile)

/// Kani concrete playback for `c16::t_constprop_u8::mutating` (check: assertion failed: x == a.clone().join(b.clone()))
#[test]
fn kani_concrete_playback_mutating_13497532756967206175() {
    let concrete_vals: Vec<Vec<u8>> = vec![
        // 253
        vec![253],
        // 100
        vec![100],
        // 101
        vec![101],
    ];
    kani::concrete_playback_run(concrete_vals, crate::c16::t_constprop_u8::mutating);
}
/* native results:
[
 {
  "test": "kani_concrete_playback_mutating_13497532756967206175",
  "check": "assertion failed: x == a.clone().join(b.clone())",
  "profile": "dev",
  "native": "FAILED",
  "panic": "panicked at src/c16.rs:63:4:\nassertion failed: x == a.clone().join(b.clone())"
 },
 {
  "test": "kani_concrete_playback_mutating_13497532756967206175",
  "check": "assertion failed: x == a.clone().join(b.clone())",
  "profile": "release",
  "native": "FAILED",
  "panic": "panicked at src/c16.rs:63:4:\nassertion failed: x == a.clone().join(b.clone())"
 }
]
*/
