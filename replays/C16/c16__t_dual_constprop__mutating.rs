// Kani concrete playback for harness c16::t_dual_constprop::mutating (property C16)
// harness crate: /verif/kani/base
// replay: copy the harness crate, save the test(s) below as src/vp_playback.rs, add
//   `#[cfg(kani)] mod vp_playback;` to src/lib.rs and run
//   `cargo kani playback -Z concrete-playback -- vp_playback` (add --release for the release profile)

/// Kani concrete playback for `c16::t_dual_constprop::mutating` (check: assertion failed: ch == (x != a))
#[test]
fn kani_concrete_playback_mutating_8345174616083191572() {
    let concrete_vals: Vec<Vec<u8>> = vec![
        // 161
        vec![161],
        // 215
        vec![215],
    ];
    kani::concrete_playback_run(concrete_vals, crate::c16::t_dual_constprop::mutating);
}
/* native results:
[
 {
  "test": "kani_concrete_playback_mutating_8345174616083191572",
  "check": "assertion failed: ch == (x != a)",
  "profile": "dev",
  "native": "FAILED",
  "panic": "panicked at src/c16.rs:64:4:\nassertion failed: ch == (x != a)"
 },
 {
  "test": "kani_concrete_playback_mutating_8345174616083191572",
  "check": "assertion failed: ch == (x != a)",
  "profile": "release",
  "native": "FAILED",
  "panic": "panicked at src/c16.rs:64:4:\nassertion failed: ch == (x != a)"
 }
]
*/
