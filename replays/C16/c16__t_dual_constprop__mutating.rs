// Kani concrete playback for harness c16::t_dual_constprop::mutating (property C16)
// harness crate: /verif/kani/base
// replay: copy the harness crate, save the test(s) below as src/vp_playback.rs, add
//   `#[cfg(kani)] mod vp_playback;` to src/lib.rs and run
//   `cargo kani playback -Z concrete-playback -- vp_playback` (add --release for the release profile)

/// Kani concrete playback for `c16::t_dual_constprop::mutating` (check: assertion failed: y == a.clone().meet(b.clone()))
#[test]
fn kani_concrete_playback_mutating_12487544622026823811() {
    let concrete_vals: Vec<Vec<u8>> = vec![
        // 253
        vec![253],
        // 37
        vec![37],
        // 38
        vec![38],
    ];
    kani::concrete_playback_run(concrete_vals, crate::c16::t_dual_constprop::mutating);
}
/* native results:
[
 {
  "test": "kani_concrete_playback_mutating_12487544622026823811",
  "check": "assertion failed: y == a.clone().meet(b.clone())",
  "profile": "dev",
  "native": "FAILED",
  "panic": "panicked at src/c16.rs:67:4:\nassertion failed: y == a.clone().meet(b.clone())"
 },
 {
  "test": "kani_concrete_playback_mutating_12487544622026823811",
  "check": "assertion failed: y == a.clone().meet(b.clone())",
  "profile": "release",
  "native": "FAILED",
  "panic": "panicked at src/c16.rs:67:4:\nassertion failed: y == a.clone().meet(b.clone())"
 }
]
*/
