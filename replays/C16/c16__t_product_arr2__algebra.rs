// Kani concrete playback for harness c16::t_product_arr2::algebra (property C16)
// harness crate: /verif/kani/base
// replay: copy the harness crate, save the test(s) below as src/vp_playback.rs, add
//   `#[cfg(kani)] mod vp_playback;` to src/lib.rs and run
//   `cargo kani playback -Z concrete-playback -- vp_playback` (add --release for the release profile)

/// Kani concrete playback for `c16::t_product_arr2::algebra` (check: assertion failed: a.clone().join(b.clone()) == b.clone().join(a.clone()))
#[test]
fn kani_concrete_playback_algebra_7057570926201914120() {
    let concrete_vals: Vec<Vec<u8>> = vec![
        // 144
        vec![144],
        // 56
        vec![56],
        // 252
        vec![252],
        // 60
        vec![60],
        // 255
        vec![255],
        // 1
        vec![1],
    ];
    kani::concrete_playback_run(concrete_vals, crate::c16::t_product_arr2::algebra);
}
/// Kani concrete playback for `c16::t_product_arr2::algebra` (check: assertion failed: a.clone().join(b.clone()).join(c.clone()) ==)
#[test]
fn kani_concrete_playback_algebra_2782888945089663499() {
    let concrete_vals: Vec<Vec<u8>> = vec![
        // 0
        vec![0],
        // 234
        vec![234],
        // 68
        vec![68],
        // 26
        vec![26],
        // 68
        vec![68],
        // 252
        vec![252],
    ];
    kani::concrete_playback_run(concrete_vals, crate::c16::t_product_arr2::algebra);
}
/* native results:
[
 {
  "test": "kani_concrete_playback_algebra_7057570926201914120",
  "check": "assertion failed: a.clone().join(b.clone()) == b.clone().join(a.clone())",
  "profile": "dev",
  "native": "FAILED",
  "panic": "panicked at src/c16.rs:20:4:\nassertion failed: a.clone().join(b.clone()) == b.clone().join(a.clone())"
 },
 {
  "test": "kani_concrete_playback_algebra_7057570926201914120",
  "check": "assertion failed: a.clone().join(b.clone()) == b.clone().join(a.clone())",
  "profile": "release",
  "native": "FAILED",
  "panic": "panicked at src/c16.rs:20:4:\nassertion failed: a.clone().join(b.clone()) == b.clone().join(a.clone())"
 },
 {
  "test": "kani_concrete_playback_algebra_2782888945089663499",
  "check": "assertion failed: a.clone().join(b.clone()).join(c.clone()) ==",
  "profile": "dev",
  "native": "FAILED",
  "panic": "panicked at src/c16.rs:23:4:\nassertion failed: a.clone().join(b.clone()).join(c.clone()) =="
 },
 {
  "test": "kani_concrete_playback_algebra_2782888945089663499",
  "check": "assertion failed: a.clone().join(b.clone()).join(c.clone()) ==",
  "profile": "release",
  "native": "FAILED",
  "panic": "panicked at src/c16.rs:23:4:\nassertion failed: a.clone().join(b.clone()).join(c.clone()) =="
 }
]
*/
