// Kani concrete playback for harness c16::t_product_arr2::mutating (property C16)
// harness crate: /verif/kani/base
// replay: copy the harness crate, save the test(s) below as src/vp_playback.rs, add
//   `#[cfg(kani)] mod vp_playback;` to src/lib.rs and run
//   `cargo kani playback -Z concrete-playback -- vp_playback` (add --release for the release profile)

/// Kani concrete playback for `c16::t_product_arr2::mutating` (check: assertion failed: !x.join_mut(b.clone()))
#[test]
fn kani_concrete_playback_mutating_6979345533274898120() {
    let concrete_vals: Vec<Vec<u8>> = vec![
        // 91
        vec![91],
        // 58
        vec![58],
        // 155
        vec![155],
        // 250
        vec![250],
    ];
    kani::concrete_playback_run(concrete_vals, crate::c16::t_product_arr2::mutating);
}
/// Kani concrete playback for `c16::t_product_arr2::mutating` (check: assertion failed: !y.meet_mut(b))
#[test]
fn kani_concrete_playback_mutating_16245975616474097489() {
    let concrete_vals: Vec<Vec<u8>> = vec![
        // 96
        vec![96],
        // 240
        vec![240],
        // 32
        vec![32],
        // 32
        vec![32],
    ];
    kani::concrete_playback_run(concrete_vals, crate::c16::t_product_arr2::mutating);
}
/* native results:
[
 {
  "test": "kani_concrete_playback_mutating_6979345533274898120",
  "check": "assertion failed: !x.join_mut(b.clone())",
  "profile": "dev",
  "native": "FAILED",
  "panic": "panicked at src/c16.rs:70:4:\nassertion failed: !x.join_mut(b.clone())"
 },
 {
  "test": "kani_concrete_playback_mutating_6979345533274898120",
  "check": "assertion failed: !x.join_mut(b.clone())",
  "profile": "release",
  "native": "FAILED",
  "panic": "panicked at src/c16.rs:70:4:\nassertion failed: !x.join_mut(b.clone())"
 },
 {
  "test": "kani_concrete_playback_mutating_16245975616474097489",
  "check": "assertion failed: !y.meet_mut(b)",
  "profile": "dev",
  "native": "FAILED",
  "panic": "panicked at src/c16.rs:71:4:\nassertion failed: !y.meet_mut(b)"
 },
 {
  "test": "kani_concrete_playback_mutating_16245975616474097489",
  "check": "assertion failed: !y.meet_mut(b)",
  "profile": "release",
  "native": "FAILED",
  "panic": "panicked at src/c16.rs:71:4:\nassertion failed: !y.meet_mut(b)"
 }
]
*/
