// Kani concrete playback for harness c16::t_product_arr2::order (property C16)
// harness crate: /verif/kani/base
// replay: copy the harness crate, save the test(s) below as src/vp_playback.rs, add
//   `#[cfg(kani)] mod vp_playback;` to src/lib.rs and run
//   `cargo kani playback -Z concrete-playback -- vp_playback` (add --release for the release profile)

/// Kani concrete playback for `c16::t_product_arr2::order` (check: assertion failed: a_le_b == (a.clone().join(b.clone()) == b))
#[test]
fn kani_concrete_playback_order_17241873162041119453() {
    let concrete_vals: Vec<Vec<u8>> = vec![
        // 8
        vec![8],
        // 37
        vec![37],
        // 69
        vec![69],
        // 125
        vec![125],
        // 14
        vec![14],
        // 233
        vec![233],
    ];
    kani::concrete_playback_run(concrete_vals, crate::c16::t_product_arr2::order);
}
/// Kani concrete playback for `c16::t_product_arr2::order` (check: assertion failed: le(&m, &a) && le(&m, &b))
#[test]
fn kani_concrete_playback_order_4583291969547968957() {
    let concrete_vals: Vec<Vec<u8>> = vec![
        // 123
        vec![123],
        // 235
        vec![235],
        // 11
        vec![11],
        // 80
        vec![80],
        // 255
        vec![255],
        // 253
        vec![253],
    ];
    kani::concrete_playback_run(concrete_vals, crate::c16::t_product_arr2::order);
}
/* native results:
[
 {
  "test": "kani_concrete_playback_order_17241873162041119453",
  "check": "assertion failed: a_le_b == (a.clone().join(b.clone()) == b)",
  "profile": "dev",
  "native": "FAILED",
  "panic": "panicked at src/c16.rs:36:4:\nassertion failed: a_le_b == (a.clone().join(b.clone()) == b)"
 },
 {
  "test": "kani_concrete_playback_order_17241873162041119453",
  "check": "assertion failed: a_le_b == (a.clone().join(b.clone()) == b)",
  "profile": "release",
  "native": "FAILED",
  "panic": "panicked at src/c16.rs:36:4:\nassertion failed: a_le_b == (a.clone().join(b.clone()) == b)"
 },
 {
  "test": "kani_concrete_playback_order_4583291969547968957",
  "check": "assertion failed: le(&m, &a) && le(&m, &b)",
  "profile": "dev",
  "native": "FAILED",
  "panic": "panicked at src/c16.rs:42:4:\nassertion failed: le(&m, &a) && le(&m, &b)"
 },
 {
  "test": "kani_concrete_playback_order_4583291969547968957",
  "check": "assertion failed: le(&m, &a) && le(&m, &b)",
  "profile": "release",
  "native": "FAILED",
  "panic": "panicked at src/c16.rs:42:4:\nassertion failed: le(&m, &a) && le(&m, &b)"
 }
]
*/
