// Kani concrete playback for harness c16::t_product_arr3::algebra (property C16)
// harness crate: /verif/kani/base
// replay: copy the harness crate, save the test(s) below as src/vp_playback.rs, add
//   `#[cfg(kani)] mod vp_playback;` to src/lib.rs and run
//   `cargo kani playback -Z concrete-playback -- vp_playback` (add --release for the release profile)

/// Kani concrete playback for `c16::t_product_arr3::algebra` (check: assertion failed: a.clone().join(b.clone()) == b.clone().join(a.clone()))
#[test]
fn kani_concrete_playback_algebra_10047669729909030888() {
    let concrete_vals: Vec<Vec<u8>> = vec![
        // 136
        vec![136],
        // 7
        vec![7],
        // 1
        vec![1],
        // 218
        vec![218],
        // 135
        vec![135],
        // 61
        vec![61],
        // 255
        vec![255],
        // 103
        vec![103],
        // 1
        vec![1],
    ];
    kani::concrete_playback_run(concrete_vals, crate::c16::t_product_arr3::algebra);
}
/// Kani concrete playback for `c16::t_product_arr3::algebra` (check: assertion failed: a.clone().join(b.clone()).join(c.clone()) ==)
#[test]
fn kani_concrete_playback_algebra_15038486019616571120() {
    let concrete_vals: Vec<Vec<u8>> = vec![
        // 135
        vec![135],
        // 42
        vec![42],
        // 205
        vec![205],
        // 135
        vec![135],
        // 237
        vec![237],
        // 11
        vec![11],
        // 191
        vec![191],
        // 247
        vec![247],
        // 9
        vec![9],
    ];
    kani::concrete_playback_run(concrete_vals, crate::c16::t_product_arr3::algebra);
}
/* native results:
[
 {
  "test": "kani_concrete_playback_algebra_10047669729909030888",
  "check": "assertion failed: a.clone().join(b.clone()) == b.clone().join(a.clone())",
  "profile": "dev",
  "native": "FAILED",
  "panic": "panicked at src/c16.rs:20:4:\nassertion failed: a.clone().join(b.clone()) == b.clone().join(a.clone())"
 },
 {
  "test": "kani_concrete_playback_algebra_10047669729909030888",
  "check": "assertion failed: a.clone().join(b.clone()) == b.clone().join(a.clone())",
  "profile": "release",
  "native": "FAILED",
  "panic": "panicked at src/c16.rs:20:4:\nassertion failed: a.clone().join(b.clone()) == b.clone().join(a.clone())"
 },
 {
  "test": "kani_concrete_playback_algebra_15038486019616571120",
  "check": "assertion failed: a.clone().join(b.clone()).join(c.clone()) ==",
  "profile": "dev",
  "native": "FAILED",
  "panic": "panicked at src/c16.rs:23:4:\nassertion failed: a.clone().join(b.clone()).join(c.clone()) =="
 },
 {
  "test": "kani_concrete_playback_algebra_15038486019616571120",
  "check": "assertion failed: a.clone().join(b.clone()).join(c.clone()) ==",
  "profile": "release",
  "native": "FAILED",
  "panic": "panicked at src/c16.rs:23:4:\nassertion failed: a.clone().join(b.clone()).join(c.clone()) =="
 }
]
*/
