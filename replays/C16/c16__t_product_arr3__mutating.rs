// Kani concrete playback for harness c16::t_product_arr3::mutating (property C16)
// harness crate: /verif/kani/base
// replay: copy the harness crate, save the test(s) below as src/vp_playback.rs, add
//   `#[cfg(kani)] mod vp_playback;` to src/lib.rs and run
//   `cargo kani playback -Z concrete-playback -- vp_playback` (add --release for the release profile)

/// Kani concrete playback for `c16::t_product_arr3::mutating` (check: assertion failed: !x.join_mut(b.clone()))
#[test]
fn kani_concrete_playback_mutating_12360433382445883466() {
    let concrete_vals: Vec<Vec<u8>> = vec![
        // 81
        vec![81],
        // 227
        vec![227],
        // 254
        vec![254],
        // 125
        vec![125],
        // 227
        vec![227],
        // 255
        vec![255],
    ];
    kani::concrete_playback_run(concrete_vals, crate::c16::t_product_arr3::mutating);
}
/// Kani concrete playback for `c16::t_product_arr3::mutating` (check: assertion failed: !y.meet_mut(b))
#[test]
fn kani_concrete_playback_mutating_16607213485740009056() {
    let concrete_vals: Vec<Vec<u8>> = vec![
        // 255
        vec![255],
        // 128
        vec![128],
        // 128
        vec![128],
        // 110
        vec![110],
        // 144
        vec![144],
        // 0
        vec![0],
    ];
    kani::concrete_playback_run(concrete_vals, crate::c16::t_product_arr3::mutating);
}
/* native results:
[
 {
  "test": "kani_concrete_playback_mutating_12360433382445883466",
  "check": "assertion failed: !x.join_mut(b.clone())",
  "profile": "dev",
  "native": "FAILED",
  "panic": "panicked at src/c16.rs:70:4:\nassertion failed: !x.join_mut(b.clone())"
 },
 {
  "test": "kani_concrete_playback_mutating_12360433382445883466",
  "check": "assertion failed: !x.join_mut(b.clone())",
  "profile": "release",
  "native": "FAILED",
  "panic": "panicked at src/c16.rs:70:4:\nassertion failed: !x.join_mut(b.clone())"
 },
 {
  "test": "kani_concrete_playback_mutating_16607213485740009056",
  "check": "assertion failed: !y.meet_mut(b)",
  "profile": "dev",
  "native": "FAILED",
  "panic": "panicked at src/c16.rs:71:4:\nassertion failed: !y.meet_mut(b)"
 },
 {
  "test": "kani_concrete_playback_mutating_16607213485740009056",
  "check": "assertion failed: !y.meet_mut(b)",
  "profile": "release",
  "native": "FAILED",
  "panic": "panicked at src/c16.rs:71:4:\nassertion failed: !y.meet_mut(b)"
 }
]
*/
