// Kani concrete playback for harness c16::t_product_arr3::order (property C16)
// harness crate: /verif/kani/base
// replay: copy the harness crate, save the test(s) below as src/vp_playback.rs, add
//   `#[cfg(kani)] mod vp_playback;` to src/lib.rs and run
//   `cargo kani playback -Z concrete-playback -- vp_playback` (add --release for the release profile)

/// Kani concrete playback for `c16::t_product_arr3::order` (check: assertion failed: a_le_b == (a.clone().join(b.clone()) == b))
#[test]
fn kani_concrete_playback_order_17151965458864724595() {
    let concrete_vals: Vec<Vec<u8>> = vec![
        // 254
        vec![254],
        // 255
        vec![255],
        // 254
        vec![254],
        // 255
        vec![255],
        // 255
        vec![255],
        // 255
        vec![255],
        // 255
        vec![255],
        // 127
        vec![127],
        // 255
        vec![255],
    ];
    kani::concrete_playback_run(concrete_vals, crate::c16::t_product_arr3::order);
}
/// Kani concrete playback for `c16::t_product_arr3::order` (check: assertion failed: le(&a, &j) && le(&b, &j))
#[test]
fn kani_concrete_playback_order_4415531960572349447() {
    let concrete_vals: Vec<Vec<u8>> = vec![
        // 191
        vec![191],
        // 254
        vec![254],
        // 253
        vec![253],
        // 126
        vec![126],
        // 255
        vec![255],
        // 254
        vec![254],
        // 63
        vec![63],
        // 127
        vec![127],
        // 255
        vec![255],
    ];
    kani::concrete_playback_run(concrete_vals, crate::c16::t_product_arr3::order);
}
/* native results:
[
 {
  "test": "kani_concrete_playback_order_17151965458864724595",
  "check": "assertion failed: a_le_b == (a.clone().join(b.clone()) == b)",
  "profile": "dev",
  "native": "FAILED",
  "panic": "panicked at src/c16.rs:36:4:\nassertion failed: a_le_b == (a.clone().join(b.clone()) == b)"
 },
 {
  "test": "kani_concrete_playback_order_17151965458864724595",
  "check": "assertion failed: a_le_b == (a.clone().join(b.clone()) == b)",
  "profile": "release",
  "native": "FAILED",
  "panic": "panicked at src/c16.rs:36:4:\nassertion failed: a_le_b == (a.clone().join(b.clone()) == b)"
 },
 {
  "test": "kani_concrete_playback_order_4415531960572349447",
  "check": "assertion failed: le(&a, &j) && le(&b, &j)",
  "profile": "dev",
  "native": "FAILED",
  "panic": "panicked at src/c16.rs:41:4:\nassertion failed: le(&a, &j) && le(&b, &j)"
 },
 {
  "test": "kani_concrete_playback_order_4415531960572349447",
  "check": "assertion failed: le(&a, &j) && le(&b, &j)",
  "profile": "release",
  "native": "FAILED",
  "panic": "panicked at src/c16.rs:41:4:\nassertion failed: le(&a, &j) && le(&b, &j)"
 }
]
*/
