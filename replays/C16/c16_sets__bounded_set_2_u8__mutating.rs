// Kani concrete playback for harness c16_sets::bounded_set_2_u8::mutating (property C16)
// harness crate: /verif/kani/base
// replay: copy the harness crate, save the test(s) below as src/vp_playback.rs, add
//   `#[cfg(kani)] mod vp_playback;` to src/lib.rs and run
//   `cargo kani playback -Z concrete-playback -- vp_playback` (add --release for the release profile)

/// Kani concrete playback for `c16_sets::bounded_set_2_u8::mutating` (check: assertion failed: ch == (x != a))
#[test]
fn kani_concrete_playback_mutating_11469356252303771702() {
    let concrete_vals: Vec<Vec<u8>> = vec![
        // 0
        vec![0],
        // 0
        vec![0],
        // 0
        vec![0],
        // 0
        vec![0],
        // 0
        vec![0],
        // 0
        vec![0],
        // 1
        vec![1],
        // 1
        vec![1],
        // 0
        vec![0],
        // 1
        vec![1],
    ];
    kani::concrete_playback_run(concrete_vals, crate::c16_sets::bounded_set_2_u8::mutating);
}
/* native results:
[
 {
  "test": "kani_concrete_playback_mutating_11469356252303771702",
  "check": "assertion failed: ch == (x != a)",
  "profile": "dev",
  "native": "FAILED",
  "panic": "panicked at src/c16_sets.rs:118:1:\nassertion failed: ch == (x != a)"
 },
 {
  "test": "kani_concrete_playback_mutating_11469356252303771702",
  "check": "assertion failed: ch == (x != a)",
  "profile": "release",
  "native": "FAILED",
  "panic": "panicked at src/c16_sets.rs:118:1:\nassertion failed: ch == (x != a)"
 }
]
*/
