// Kani concrete playback for harness c17::count_exact_and_inexact (property C17)
// harness crate: /verif/kani/base
// replay: copy the harness crate, save the test(s) below as src/vp_playback.rs, add
//   `#[cfg(kani)] mod vp_playback;` to src/lib.rs and run
//   `cargo kani playback -Z concrete-playback -- vp_playback` (add --release for the release profile)

/// Test generated for harness `c17::count_exact_and_inexact` 
///
/// Check for `assertion`: "assertion failed: got.next() == Some(expect)"

#[test]
fn kani_concrete_playback_count_exact_and_inexact_4313285849447874293() {
    let concrete_vals: Vec<Vec<u8>> = vec![
        // 1ul
        vec![1, 0, 0, 0, 0, 0, 0, 0],
        // 0
        vec![0],
        // 1
        vec![1],
        // 1
        vec![1],
        // 1
        vec![1],
    ];
    kani::concrete_playback_run(concrete_vals, crate::c17::count_exact_and_inexact);
}
/* native results:
[
 {
  "test": "kani_concrete_playback_count_exact_and_inexact_4313285849447874293",
  "check": "assertion failed: got.next() == Some(expect)",
  "profile": "dev",
  "native": "FAILED",
  "panic": "panicked at src/c17.rs:125:4:\nassertion failed: got.next() == Some(expect)"
 },
 {
  "test": "kani_concrete_playback_count_exact_and_inexact_4313285849447874293",
  "check": "assertion failed: got.next() == Some(expect)",
  "profile": "release",
  "native": "FAILED",
  "panic": "panicked at src/c17.rs:125:4:\nassertion failed: got.next() == Some(expect)"
 }
]
*/
