// Kani concrete playback for harness c17::percentile_rank_len50 (property C17)
// harness crate: /verif/kani/base
// replay: copy the harness crate, save the test(s) below as src/vp_playback.rs, add
//   `#[cfg(kani)] mod vp_playback;` to src/lib.rs and run
//   `cargo kani playback -Z concrete-playback -- vp_playback` (add --release for the release profile)

/// Kani concrete playback for `c17::percentile_rank_len50` (check: assertion failed: g == Some(idx as u8))
#[test]
fn kani_concrete_playback_percentile_rank_len50_4223727087117654444() {
    let concrete_vals: Vec<Vec<u8>> = vec![
        // 58
        vec![58],
    ];
    kani::concrete_playback_run(concrete_vals, crate::c17::percentile_rank_len50);
}
/* native results:
[
 {
  "test": "kani_concrete_playback_percentile_rank_len50_4223727087117654444",
  "check": "assertion failed: g == Some(idx as u8)",
  "profile": "dev",
  "native": "FAILED",
  "panic": "panicked at src/c17.rs:290:4:\nassertion failed: g == Some(idx as u8)"
 },
 {
  "test": "kani_concrete_playback_percentile_rank_len50_4223727087117654444",
  "check": "assertion failed: g == Some(idx as u8)",
  "profile": "release",
  "native": "FAILED",
  "panic": "panicked at src/c17.rs:290:4:\nassertion failed: g == Some(idx as u8)"
 }
]
*/
