// Kani concrete playback for harness c19::quick::full_index_unit_merge (property C19)
// harness crate: /verif/kani/tables
// replay: copy the harness crate, save the test(s) below as src/vp_playback.rs, add
//   `#[cfg(kani)] mod vp_playback;` to src/lib.rs and run
//   `cargo kani playback -Z concrete-playback -- vp_playback` (add --release for the release profile)

/// Kani concrete playback for `c19::quick::full_index_unit_merge` (check: assertion failed: comb.is_empty() == (set2_len(sx) + set2_len(sy) == 0))
#[test]
fn kani_concrete_playback_full_index_unit_merge_13961153457829343082() {
    let concrete_vals: Vec<Vec<u8>> = vec![
        // 0
        vec![0],
        // 1
        vec![1],
        // 2
        vec![2],
        // 2
        vec![2],
        // 1
        vec![1],
        // 1
        vec![1],
        // 2
        vec![2],
        // 1
        vec![1],
        // 0
        vec![0],
        // 1
        vec![1],
        // 2
        vec![2],
        // 1
        vec![1],
        // 1
        vec![1],
        // 0
        vec![0],
        // 0
        vec![0],
        // 1
        vec![1],
        // 1
        vec![1],
    ];
    kani::concrete_playback_run(concrete_vals, crate::c19::quick::full_index_unit_merge);
}
/* native results:
[
 {
  "test": "kani_concrete_playback_full_index_unit_merge_13961153457829343082",
  "check": "assertion failed: comb.is_empty() == (set2_len(sx) + set2_len(sy) == 0)",
  "profile": "dev",
  "native": "FAILED",
  "panic": "panicked at src/c19.rs:410:4:\nassertion failed: comb.is_empty() == (set2_len(sx) + set2_len(sy) == 0)"
 },
 {
  "test": "kani_concrete_playback_full_index_unit_merge_13961153457829343082",
  "check": "assertion failed: comb.is_empty() == (set2_len(sx) + set2_len(sy) == 0)",
  "profile": "release",
  "native": "FAILED",
  "panic": "panicked at src/c19.rs:410:4:\nassertion failed: comb.is_empty() == (set2_len(sx) + set2_len(sy) == 0)"
 }
]
*/
