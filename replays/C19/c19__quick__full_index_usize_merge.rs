// Kani concrete playback for harness c19::quick::full_index_usize_merge (property C19)
// harness crate: /verif/kani/tables
// replay: copy the harness crate, save the test(s) below as src/vp_playback.rs, add
//   `#[cfg(kani)] mod vp_playback;` to src/lib.rs and run
//   `cargo kani playback -Z concrete-playback -- vp_playback` (add --release for the release profile)

/// Kani concrete playback for `c19::quick::full_index_usize_merge` (check: assertion failed: RelIndexRead::len_estimate(ix) == n)
#[test]
fn kani_concrete_playback_full_index_usize_merge_11166311436136593236() {
    let concrete_vals: Vec<Vec<u8>> = vec![
        // 0
        vec![0],
        // 0
        vec![0],
        // 1
        vec![1],
        // 1
        vec![1],
        // 2
        vec![2],
        // 0
        vec![0],
        // 1
        vec![1],
        // 0
        vec![0],
        // 0
        vec![0],
        // 0
        vec![0],
        // 1
        vec![1],
        // 0
        vec![0],
        // 0
        vec![0],
        // 1
        vec![1],
        // 1
        vec![1],
        // 2
        vec![2],
        // 0
        vec![0],
        // 1
        vec![1],
        // 0
        vec![0],
    ];
    kani::concrete_playback_run(concrete_vals, crate::c19::quick::full_index_usize_merge);
}
/* native results:
[
 {
  "test": "kani_concrete_playback_full_index_usize_merge_11166311436136593236",
  "check": "assertion failed: RelIndexRead::len_estimate(ix) == n",
  "profile": "dev",
  "native": "FAILED",
  "panic": "panicked at src/c19.rs:525:4:\nassertion failed: RelIndexRead::len_estimate(ix) == n"
 },
 {
  "test": "kani_concrete_playback_full_index_usize_merge_11166311436136593236",
  "check": "assertion failed: RelIndexRead::len_estimate(ix) == n",
  "profile": "release",
  "native": "FAILED",
  "panic": "panicked at src/c19.rs:525:4:\nassertion failed: RelIndexRead::len_estimate(ix) == n"
 }
]
*/
