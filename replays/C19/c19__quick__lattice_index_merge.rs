// Kani concrete playback for harness c19::quick::lattice_index_merge (property C19)
// harness crate: /verif/kani/tables
// replay: copy the harness crate, save the test(s) below as src/vp_playback.rs, add
//   `#[cfg(kani)] mod vp_playback;` to src/lib.rs and run
//   `cargo kani playback -Z concrete-playback -- vp_playback` (add --release for the release profile)

/// Kani concrete playback for `c19::quick::lattice_index_merge` (check: assertion failed: got[0] == row[0] as u8 && got[1] == row[1] as u8 && got[2] == row[2] as u8)
#[test]
fn kani_concrete_playback_lattice_index_merge_6265055838460511322() {
    let concrete_vals: Vec<Vec<u8>> = vec![
        // 1
        vec![1],
        // 1
        vec![1],
        // 0
        vec![0],
        // 1
        vec![1],
        // 1
        vec![1],
        // 2
        vec![2],
        // 1
        vec![1],
        // 1
        vec![1],
        // 0
        vec![0],
        // 1
        vec![1],
        // 0
        vec![0],
        // 2
        vec![2],
        // 1
        vec![1],
        // 1
        vec![1],
        // 1
        vec![1],
        // 1
        vec![1],
    ];
    kani::concrete_playback_run(concrete_vals, crate::c19::quick::lattice_index_merge);
}
/// Kani concrete playback for `c19::quick::lattice_index_merge` (check: assertion failed: vals.len() == r [0] as usize + r [1] as usize + r [2] as usize && vals.len() >)
#[test]
fn kani_concrete_playback_lattice_index_merge_12247118731072318105() {
    let concrete_vals: Vec<Vec<u8>> = vec![
        // 1
        vec![1],
        // 2
        vec![2],
        // 0
        vec![0],
        // 1
        vec![1],
        // 1
        vec![1],
        // 0
        vec![0],
        // 1
        vec![1],
        // 1
        vec![1],
        // 2
        vec![2],
        // 1
        vec![1],
        // 1
        vec![1],
        // 1
        vec![1],
        // 1
        vec![1],
        // 2
        vec![2],
        // 0
        vec![0],
        // 2
        vec![2],
    ];
    kani::concrete_playback_run(concrete_vals, crate::c19::quick::lattice_index_merge);
}
/* native results:
[
 {
  "test": "kani_concrete_playback_lattice_index_merge_6265055838460511322",
  "check": "assertion failed: got[0] == row[0] as u8 && got[1] == row[1] as u8 && got[2] == row[2] as u8",
  "profile": "dev",
  "native": "FAILED",
  "panic": "panicked at src/c19.rs:612:10:\nassertion failed: got[0] == row[0] as u8 && got[1] == row[1] as u8 && got[2] == row[2] as u8"
 },
 {
  "test": "kani_concrete_playback_lattice_index_merge_6265055838460511322",
  "check": "assertion failed: got[0] == row[0] as u8 && got[1] == row[1] as u8 && got[2] == row[2] as u8",
  "profile": "release",
  "native": "FAILED",
  "panic": "panicked at src/c19.rs:612:10:\nassertion failed: got[0] == row[0] as u8 && got[1] == row[1] as u8 && got[2] == row[2] as u8"
 },
 {
  "test": "kani_concrete_playback_lattice_index_merge_12247118731072318105",
  "check": "assertion failed: vals.len() == r [0] as usize + r [1] as usize + r [2] as usize && vals.len() >",
  "profile": "dev",
  "native": "FAILED",
  "panic": "panicked at src/c19.rs:633:4:\nassertion failed: vals.len() == r[0] as usize + r[1] as usize + r[2] as usize && vals.len() > 0"
 },
 {
  "test": "kani_concrete_playback_lattice_index_merge_12247118731072318105",
  "check": "assertion failed: vals.len() == r [0] as usize + r [1] as usize + r [2] as usize && vals.len() >",
  "profile": "release",
  "native": "FAILED",
  "panic": "panicked at src/c19.rs:633:4:\nassertion failed: vals.len() == r[0] as usize + r[1] as usize + r[2] as usize && vals.len() > 0"
 }
]
*/
