// Kani concrete playback for harness c19::quick::rel_index_type1_combined (property C19)
// harness crate: /verif/kani/tables
// replay: copy the harness crate, save the test(s) below as src/vp_playback.rs, add
//   `#[cfg(kani)] mod vp_playback;` to src/lib.rs and run
//   `cargo kani playback -Z concrete-playback -- vp_playback` (add --release for the release profile)

/// Kani concrete playback for `c19::quick::rel_index_type1_combined` (check: assertion failed: comb.is_empty() == (cnt_keys(ca) + cnt_keys(cb) == 0))
#[test]
fn kani_concrete_playback_rel_index_type1_combined_18138994048932019321() {
    let concrete_vals: Vec<Vec<u8>> = vec![
        // 1
        vec![1],
        // 2
        vec![2],
        // 1
        vec![1],
        // 1
        vec![1],
        // 1
        vec![1],
        // 2
        vec![2],
        // 0
        vec![0],
        // 0
        vec![0],
        // 0
        vec![0],
    ];
    kani::concrete_playback_run(concrete_vals, crate::c19::quick::rel_index_type1_combined);
}
/* native results:
[
 {
  "test": "kani_concrete_playback_rel_index_type1_combined_18138994048932019321",
  "check": "assertion failed: comb.is_empty() == (cnt_keys(ca) + cnt_keys(cb) == 0)",
  "profile": "dev",
  "native": "FAILED",
  "panic": "panicked at src/c19.rs:167:4:\nassertion failed: comb.is_empty() == (cnt_keys(ca) + cnt_keys(cb) == 0)"
 },
 {
  "test": "kani_concrete_playback_rel_index_type1_combined_18138994048932019321",
  "check": "assertion failed: comb.is_empty() == (cnt_keys(ca) + cnt_keys(cb) == 0)",
  "profile": "release",
  "native": "FAILED",
  "panic": "panicked at src/c19.rs:167:4:\nassertion failed: comb.is_empty() == (cnt_keys(ca) + cnt_keys(cb) == 0)"
 }
]
*/
