#!/bin/sh
# Build the framework from files on disk only (offline).
set -e
cd "$(dirname "$0")"
export CARGO_NET_OFFLINE=true
mkdir -p .cache evidence replays
(cd tools/rs2json && cargo build --release --offline 2>&1 | tail -2)
python3-vt -c "import z3; print('z3', z3.get_version_string())"
echo "setup ok"
