#!/bin/sh
# Build the framework from files on disk only (offline).
set -e
cd "$(dirname "$0")"
export CARGO_NET_OFFLINE=true
mkdir -p .cache evidence replays
if [ -d tools/rs2json ]; then
  (cd tools/rs2json && cargo build --release --offline 2>&1 | tail -2)
fi
echo "setup ok"
