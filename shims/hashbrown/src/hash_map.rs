use core::fmt;
use core::mem::{ManuallyDrop, MaybeUninit};
use core::ops::Index;

use crate::{overflow, DefaultHashBuilder, Equivalent, CAP};

/// Invariant: `slots[..len]` are initialised, `slots[len..]` are not.
pub struct HashMap<K, V, S = DefaultHashBuilder> {
   pub(crate) slots: [MaybeUninit<(K, V)>; CAP],
   pub(crate) len: usize,
   pub(crate) hash_builder: S,
}

#[inline]
fn empty_slots<K, V>() -> [MaybeUninit<(K, V)>; CAP] {
   // no loop (`core::array::from_fn` would need CAP+1 unwindings in every harness)
   [const { MaybeUninit::uninit() }; CAP]
}

/// Drops exactly the live entries (a derived drop of `[Option<_>; CAP]` would be a loop of
/// `CAP` iterations in every harness, with a deallocation path per slot).
impl<K, V, S> Drop for HashMap<K, V, S> {
   #[inline]
   fn drop(&mut self) {
      if core::mem::needs_drop::<(K, V)>() {
         self.clear();
      }
   }
}

impl<K, V, S: Default> Default for HashMap<K, V, S> {
   #[inline]
   fn default() -> Self { Self::with_hasher(S::default()) }
}

impl<K, V> HashMap<K, V, DefaultHashBuilder> {
   #[inline]
   pub fn new() -> Self { Self::default() }
   #[inline]
   pub fn with_capacity(_capacity: usize) -> Self { Self::default() }
}

impl<K, V, S> HashMap<K, V, S> {
   #[inline]
   pub fn with_hasher(hash_builder: S) -> Self { Self { slots: empty_slots(), len: 0, hash_builder } }
   #[inline]
   pub fn with_capacity_and_hasher(_capacity: usize, hash_builder: S) -> Self { Self::with_hasher(hash_builder) }
   /// the hasher is carried and never used by the model
   #[inline]
   pub fn hasher(&self) -> &S { &self.hash_builder }
   #[inline]
   pub fn len(&self) -> usize { self.len }
   #[inline]
   pub fn is_empty(&self) -> bool { self.len == 0 }
   #[inline]
   pub fn capacity(&self) -> usize { CAP }
   #[inline]
   pub fn reserve(&mut self, _additional: usize) {}
   #[inline]
   pub fn shrink_to_fit(&mut self) {}

   pub fn clear(&mut self) {
      let len = self.len;
      self.len = 0;
      if core::mem::needs_drop::<(K, V)>() {
         let mut i = 0;
         repeat_cap!({
            if i < len {
               unsafe { self.slots[i].assume_init_drop() };
               i += 1;
            }
         });
      }
   }

   #[inline]
   pub fn iter(&self) -> Iter<'_, K, V> { Iter { inner: self.slots[..self.len].iter() } }
   #[inline]
   pub fn iter_mut(&mut self) -> IterMut<'_, K, V> { IterMut { inner: self.slots[..self.len].iter_mut() } }
   #[inline]
   pub fn keys(&self) -> Keys<'_, K, V> { Keys { inner: self.iter() } }
   #[inline]
   pub fn values(&self) -> Values<'_, K, V> { Values { inner: self.iter() } }
   #[inline]
   pub fn values_mut(&mut self) -> ValuesMut<'_, K, V> { ValuesMut { inner: self.iter_mut() } }
   #[inline]
   pub fn drain(&mut self) -> Drain<'_, K, V> {
      let len = self.len;
      self.len = 0;
      Drain { slots: &mut self.slots, idx: 0, len }
   }

   pub fn retain<F: FnMut(&K, &mut V) -> bool>(&mut self, mut f: F) {
      // every step either advances `i` or shrinks `len`: CAP steps suffice
      let mut i = 0;
      repeat_cap!({
         if i < self.len {
            let keep = {
               let (k, v) = self.entry_at_mut(i);
               f(&*k, v)
            };
            if keep {
               i += 1;
            } else {
               self.remove_at(i);
            }
         }
      });
   }

   /// removes the entry at `i`, moving the last entry into the hole
   #[inline]
   pub(crate) fn remove_at(&mut self, i: usize) -> (K, V) {
      let last = self.len - 1;
      let removed = unsafe { self.slots[i].assume_init_read() };
      if i != last {
         self.slots[i] = MaybeUninit::new(unsafe { self.slots[last].assume_init_read() });
      }
      self.len = last;
      removed
   }

   #[inline]
   pub(crate) fn push_entry(&mut self, k: K, v: V) -> usize {
      let i = self.len;
      if i >= CAP {
         overflow()
      }
      self.slots[i] = MaybeUninit::new((k, v));
      self.len = i + 1;
      i
   }

   #[inline]
   pub(crate) fn entry_at(&self, i: usize) -> (&K, &V) {
      debug_assert!(i < self.len);
      let kv = unsafe { self.slots[i].assume_init_ref() };
      (&kv.0, &kv.1)
   }

   #[inline]
   pub(crate) fn entry_at_mut(&mut self, i: usize) -> (&mut K, &mut V) {
      debug_assert!(i < self.len);
      let kv = unsafe { self.slots[i].assume_init_mut() };
      (&mut kv.0, &mut kv.1)
   }

   #[inline]
   pub fn raw_entry_mut(&mut self) -> RawEntryBuilderMut<'_, K, V, S> { RawEntryBuilderMut { map: self } }

   /// the model never checks uniqueness here either
   #[inline]
   pub fn insert_unique_unchecked(&mut self, k: K, v: V) -> (&K, &mut V) {
      let i = self.push_entry(k, v);
      let (k, v) = self.entry_at_mut(i);
      (&*k, v)
   }
}

impl<K, V, S> HashMap<K, V, S> {
   pub(crate) fn find<Q: ?Sized + Equivalent<K>>(&self, q: &Q) -> Option<usize> {
      let mut i = 0;
      repeat_cap!({
         if i < self.len {
            if q.equivalent(unsafe { &self.slots[i].assume_init_ref().0 }) {
               return Some(i);
            }
            i += 1;
         }
      });
      None
   }

   #[inline]
   pub fn get<Q: ?Sized + Equivalent<K>>(&self, k: &Q) -> Option<&V> {
      match self.find(k) {
         Some(i) => Some(self.entry_at(i).1),
         None => None,
      }
   }
   #[inline]
   pub fn get_key_value<Q: ?Sized + Equivalent<K>>(&self, k: &Q) -> Option<(&K, &V)> {
      match self.find(k) {
         Some(i) => Some(self.entry_at(i)),
         None => None,
      }
   }
   #[inline]
   pub fn get_mut<Q: ?Sized + Equivalent<K>>(&mut self, k: &Q) -> Option<&mut V> {
      match self.find(k) {
         Some(i) => Some(self.entry_at_mut(i).1),
         None => None,
      }
   }
   #[inline]
   pub fn contains_key<Q: ?Sized + Equivalent<K>>(&self, k: &Q) -> bool { self.find(k).is_some() }

   pub fn remove<Q: ?Sized + Equivalent<K>>(&mut self, k: &Q) -> Option<V> {
      match self.find(k) {
         Some(i) => Some(self.remove_at(i).1),
         None => None,
      }
   }
   pub fn remove_entry<Q: ?Sized + Equivalent<K>>(&mut self, k: &Q) -> Option<(K, V)> {
      match self.find(k) {
         Some(i) => Some(self.remove_at(i)),
         None => None,
      }
   }
}

impl<K: Eq, V, S> HashMap<K, V, S> {
   pub fn insert(&mut self, k: K, v: V) -> Option<V> {
      match self.find(&k) {
         Some(i) => Some(core::mem::replace(self.entry_at_mut(i).1, v)),
         None => {
            self.push_entry(k, v);
            None
         },
      }
   }

   #[inline]
   pub fn entry(&mut self, key: K) -> Entry<'_, K, V, S> {
      match self.find(&key) {
         Some(idx) => Entry::Occupied(OccupiedEntry { map: self, idx, key: Some(key) }),
         None => Entry::Vacant(VacantEntry { map: self, key }),
      }
   }
}

// ---------------------------------------------------------------- entry API

pub enum Entry<'a, K, V, S> {
   Occupied(OccupiedEntry<'a, K, V, S>),
   Vacant(VacantEntry<'a, K, V, S>),
}

pub struct OccupiedEntry<'a, K, V, S> {
   map: &'a mut HashMap<K, V, S>,
   idx: usize,
   #[allow(dead_code)]
   key: Option<K>,
}

pub struct VacantEntry<'a, K, V, S> {
   map: &'a mut HashMap<K, V, S>,
   key: K,
}

impl<'a, K, V, S> Entry<'a, K, V, S> {
   #[inline]
   pub fn or_insert(self, default: V) -> &'a mut V {
      match self {
         Entry::Occupied(e) => e.into_mut(),
         Entry::Vacant(e) => e.insert(default),
      }
   }
   #[inline]
   pub fn or_insert_with<F: FnOnce() -> V>(self, default: F) -> &'a mut V {
      match self {
         Entry::Occupied(e) => e.into_mut(),
         Entry::Vacant(e) => e.insert(default()),
      }
   }
   #[inline]
   pub fn or_default(self) -> &'a mut V
   where V: Default {
      match self {
         Entry::Occupied(e) => e.into_mut(),
         Entry::Vacant(e) => e.insert(V::default()),
      }
   }
   #[inline]
   pub fn and_modify<F: FnOnce(&mut V)>(self, f: F) -> Self {
      match self {
         Entry::Occupied(mut e) => {
            f(e.get_mut());
            Entry::Occupied(e)
         },
         Entry::Vacant(e) => Entry::Vacant(e),
      }
   }
   #[inline]
   pub fn key(&self) -> &K {
      match self {
         Entry::Occupied(e) => e.key(),
         Entry::Vacant(e) => e.key(),
      }
   }
}

impl<'a, K, V, S> OccupiedEntry<'a, K, V, S> {
   #[inline]
   pub fn key(&self) -> &K { self.map.entry_at(self.idx).0 }
   #[inline]
   pub fn get(&self) -> &V { self.map.entry_at(self.idx).1 }
   #[inline]
   pub fn get_mut(&mut self) -> &mut V { self.map.entry_at_mut(self.idx).1 }
   #[inline]
   pub fn into_mut(self) -> &'a mut V { self.map.entry_at_mut(self.idx).1 }
   #[inline]
   pub fn insert(&mut self, value: V) -> V { core::mem::replace(self.get_mut(), value) }
   #[inline]
   pub fn remove(self) -> V { self.map.remove_at(self.idx).1 }
   #[inline]
   pub fn remove_entry(self) -> (K, V) { self.map.remove_at(self.idx) }
}

impl<'a, K, V, S> VacantEntry<'a, K, V, S> {
   #[inline]
   pub fn key(&self) -> &K { &self.key }
   #[inline]
   pub fn into_key(self) -> K { self.key }
   #[inline]
   pub fn insert(self, value: V) -> &'a mut V {
      let i = self.map.push_entry(self.key, value);
      self.map.entry_at_mut(i).1
   }
}

// ---------------------------------------------------------------- raw entry API

pub struct RawEntryBuilderMut<'a, K, V, S> {
   map: &'a mut HashMap<K, V, S>,
}

pub enum RawEntryMut<'a, K, V, S> {
   Occupied(RawOccupiedEntryMut<'a, K, V, S>),
   Vacant(RawVacantEntryMut<'a, K, V, S>),
}

pub struct RawOccupiedEntryMut<'a, K, V, S> {
   map: &'a mut HashMap<K, V, S>,
   idx: usize,
}

pub struct RawVacantEntryMut<'a, K, V, S> {
   map: &'a mut HashMap<K, V, S>,
}

impl<'a, K, V, S> RawEntryBuilderMut<'a, K, V, S> {
   #[inline]
   pub fn from_key<Q: ?Sized + Equivalent<K>>(self, k: &Q) -> RawEntryMut<'a, K, V, S> {
      match self.map.find(k) {
         Some(idx) => RawEntryMut::Occupied(RawOccupiedEntryMut { map: self.map, idx }),
         None => RawEntryMut::Vacant(RawVacantEntryMut { map: self.map }),
      }
   }
   /// the hash is ignored
   #[inline]
   pub fn from_key_hashed_nocheck<Q: ?Sized + Equivalent<K>>(self, _hash: u64, k: &Q) -> RawEntryMut<'a, K, V, S> {
      self.from_key(k)
   }
}

impl<'a, K, V, S> RawEntryMut<'a, K, V, S> {
   #[inline]
   pub fn insert(self, key: K, value: V) -> RawOccupiedEntryMut<'a, K, V, S> {
      match self {
         RawEntryMut::Occupied(mut e) => {
            e.insert(value);
            e
         },
         RawEntryMut::Vacant(e) => {
            let idx = e.map.push_entry(key, value);
            RawOccupiedEntryMut { map: e.map, idx }
         },
      }
   }
   #[inline]
   pub fn or_insert(self, default_key: K, default_val: V) -> (&'a mut K, &'a mut V) {
      match self {
         RawEntryMut::Occupied(e) => e.into_key_value(),
         RawEntryMut::Vacant(e) => e.insert(default_key, default_val),
      }
   }
   #[inline]
   pub fn or_insert_with<F: FnOnce() -> (K, V)>(self, default: F) -> (&'a mut K, &'a mut V) {
      match self {
         RawEntryMut::Occupied(e) => e.into_key_value(),
         RawEntryMut::Vacant(e) => {
            let (k, v) = default();
            e.insert(k, v)
         },
      }
   }
}

impl<'a, K, V, S> RawOccupiedEntryMut<'a, K, V, S> {
   #[inline]
   pub fn key(&self) -> &K { self.map.entry_at(self.idx).0 }
   #[inline]
   pub fn get(&self) -> &V { self.map.entry_at(self.idx).1 }
   #[inline]
   pub fn get_mut(&mut self) -> &mut V { self.map.entry_at_mut(self.idx).1 }
   #[inline]
   pub fn into_mut(self) -> &'a mut V { self.map.entry_at_mut(self.idx).1 }
   #[inline]
   pub fn get_key_value(&self) -> (&K, &V) { self.map.entry_at(self.idx) }
   #[inline]
   pub fn into_key_value(self) -> (&'a mut K, &'a mut V) { self.map.entry_at_mut(self.idx) }
   #[inline]
   pub fn insert(&mut self, value: V) -> V { core::mem::replace(self.get_mut(), value) }
   #[inline]
   pub fn remove(self) -> V { self.map.remove_at(self.idx).1 }
   #[inline]
   pub fn remove_entry(self) -> (K, V) { self.map.remove_at(self.idx) }
}

impl<'a, K, V, S> RawVacantEntryMut<'a, K, V, S> {
   #[inline]
   pub fn insert(self, key: K, value: V) -> (&'a mut K, &'a mut V) {
      let i = self.map.push_entry(key, value);
      self.map.entry_at_mut(i)
   }
   #[inline]
   pub fn insert_hashed_nocheck(self, _hash: u64, key: K, value: V) -> (&'a mut K, &'a mut V) { self.insert(key, value) }
}

// ---------------------------------------------------------------- iterators

pub struct Iter<'a, K, V> {
   inner: core::slice::Iter<'a, MaybeUninit<(K, V)>>,
}

impl<K, V> Clone for Iter<'_, K, V> {
   #[inline]
   fn clone(&self) -> Self { Iter { inner: self.inner.clone() } }
}

impl<'a, K, V> Iterator for Iter<'a, K, V> {
   type Item = (&'a K, &'a V);
   #[inline]
   fn next(&mut self) -> Option<Self::Item> {
      match self.inner.next() {
         Some(slot) => {
            let kv = unsafe { slot.assume_init_ref() };
            Some((&kv.0, &kv.1))
         },
         None => None,
      }
   }
   #[inline]
   fn size_hint(&self) -> (usize, Option<usize>) { self.inner.size_hint() }
}
impl<K, V> ExactSizeIterator for Iter<'_, K, V> {}

pub struct IterMut<'a, K, V> {
   inner: core::slice::IterMut<'a, MaybeUninit<(K, V)>>,
}

impl<'a, K, V> Iterator for IterMut<'a, K, V> {
   type Item = (&'a K, &'a mut V);
   #[inline]
   fn next(&mut self) -> Option<Self::Item> {
      match self.inner.next() {
         Some(slot) => {
            let kv = unsafe { slot.assume_init_mut() };
            Some((&kv.0, &mut kv.1))
         },
         None => None,
      }
   }
   #[inline]
   fn size_hint(&self) -> (usize, Option<usize>) { self.inner.size_hint() }
}
impl<K, V> ExactSizeIterator for IterMut<'_, K, V> {}

pub struct Keys<'a, K, V> {
   inner: Iter<'a, K, V>,
}
impl<K, V> Clone for Keys<'_, K, V> {
   #[inline]
   fn clone(&self) -> Self { Keys { inner: self.inner.clone() } }
}
impl<'a, K, V> Iterator for Keys<'a, K, V> {
   type Item = &'a K;
   #[inline]
   fn next(&mut self) -> Option<&'a K> {
      match self.inner.next() {
         Some((k, _)) => Some(k),
         None => None,
      }
   }
   #[inline]
   fn size_hint(&self) -> (usize, Option<usize>) { self.inner.size_hint() }
}
impl<K, V> ExactSizeIterator for Keys<'_, K, V> {}

pub struct Values<'a, K, V> {
   inner: Iter<'a, K, V>,
}
impl<K, V> Clone for Values<'_, K, V> {
   #[inline]
   fn clone(&self) -> Self { Values { inner: self.inner.clone() } }
}
impl<'a, K, V> Iterator for Values<'a, K, V> {
   type Item = &'a V;
   #[inline]
   fn next(&mut self) -> Option<&'a V> {
      match self.inner.next() {
         Some((_, v)) => Some(v),
         None => None,
      }
   }
   #[inline]
   fn size_hint(&self) -> (usize, Option<usize>) { self.inner.size_hint() }
}
impl<K, V> ExactSizeIterator for Values<'_, K, V> {}

pub struct ValuesMut<'a, K, V> {
   inner: IterMut<'a, K, V>,
}
impl<'a, K, V> Iterator for ValuesMut<'a, K, V> {
   type Item = &'a mut V;
   #[inline]
   fn next(&mut self) -> Option<&'a mut V> {
      match self.inner.next() {
         Some((_, v)) => Some(v),
         None => None,
      }
   }
   #[inline]
   fn size_hint(&self) -> (usize, Option<usize>) { self.inner.size_hint() }
}

/// Draining iterator: the map is already empty (`len == 0`) while this exists; entries not
/// yielded are dropped with the iterator.
pub struct Drain<'a, K, V> {
   slots: &'a mut [MaybeUninit<(K, V)>; CAP],
   idx: usize,
   len: usize,
}

impl<K, V> Iterator for Drain<'_, K, V> {
   type Item = (K, V);
   #[inline]
   fn next(&mut self) -> Option<(K, V)> {
      if self.idx < self.len {
         let r = unsafe { self.slots[self.idx].assume_init_read() };
         self.idx += 1;
         Some(r)
      } else {
         None
      }
   }
   #[inline]
   fn size_hint(&self) -> (usize, Option<usize>) { (self.len - self.idx, Some(self.len - self.idx)) }
}
impl<K, V> ExactSizeIterator for Drain<'_, K, V> {}

impl<K, V> Drop for Drain<'_, K, V> {
   fn drop(&mut self) {
      if core::mem::needs_drop::<(K, V)>() {
         repeat_cap!({
            if self.idx < self.len {
               unsafe { self.slots[self.idx].assume_init_drop() };
               self.idx += 1;
            }
         });
      }
   }
}

pub struct IntoIter<K, V> {
   slots: [MaybeUninit<(K, V)>; CAP],
   idx: usize,
   len: usize,
}

impl<K, V> Drop for IntoIter<K, V> {
   fn drop(&mut self) {
      if core::mem::needs_drop::<(K, V)>() {
         repeat_cap!({
            if self.idx < self.len {
               unsafe { self.slots[self.idx].assume_init_drop() };
               self.idx += 1;
            }
         });
      }
   }
}

impl<K, V> Iterator for IntoIter<K, V> {
   type Item = (K, V);
   #[inline]
   fn next(&mut self) -> Option<(K, V)> {
      if self.idx < self.len {
         let r = unsafe { self.slots[self.idx].assume_init_read() };
         self.idx += 1;
         Some(r)
      } else {
         None
      }
   }
   #[inline]
   fn size_hint(&self) -> (usize, Option<usize>) { (self.len - self.idx, Some(self.len - self.idx)) }
}
impl<K, V> ExactSizeIterator for IntoIter<K, V> {}

impl<K, V, S> IntoIterator for HashMap<K, V, S> {
   type Item = (K, V);
   type IntoIter = IntoIter<K, V>;
   #[inline]
   fn into_iter(self) -> IntoIter<K, V> {
      let mut this = ManuallyDrop::new(self);
      unsafe { core::ptr::drop_in_place(&mut this.hash_builder) };
      IntoIter { slots: unsafe { core::ptr::read(&this.slots) }, idx: 0, len: this.len }
   }
}

impl<'a, K, V, S> IntoIterator for &'a HashMap<K, V, S> {
   type Item = (&'a K, &'a V);
   type IntoIter = Iter<'a, K, V>;
   #[inline]
   fn into_iter(self) -> Iter<'a, K, V> { self.iter() }
}

impl<'a, K, V, S> IntoIterator for &'a mut HashMap<K, V, S> {
   type Item = (&'a K, &'a mut V);
   type IntoIter = IterMut<'a, K, V>;
   #[inline]
   fn into_iter(self) -> IterMut<'a, K, V> { self.iter_mut() }
}

// ---------------------------------------------------------------- std traits

impl<K: Clone, V: Clone, S: Clone> Clone for HashMap<K, V, S> {
   fn clone(&self) -> Self {
      let mut res = Self::with_hasher(self.hash_builder.clone());
      let mut i = 0;
      repeat_cap!({
         if i < self.len {
            let (k, v) = self.entry_at(i);
            res.slots[i] = MaybeUninit::new((k.clone(), v.clone()));
            res.len = i + 1;
            i += 1;
         }
      });
      res
   }
}

impl<K: fmt::Debug, V: fmt::Debug, S> fmt::Debug for HashMap<K, V, S> {
   fn fmt(&self, f: &mut fmt::Formatter<'_>) -> fmt::Result { f.debug_map().entries(self.iter()).finish() }
}

impl<K: Eq, V: PartialEq, S> PartialEq for HashMap<K, V, S> {
   fn eq(&self, other: &Self) -> bool {
      if self.len != other.len {
         return false;
      }
      let mut i = 0;
      repeat_cap!({
         if i < self.len {
            let (k, v) = self.entry_at(i);
            match other.get(k) {
               Some(v2) if *v == *v2 => {},
               _ => return false,
            }
            i += 1;
         }
      });
      true
   }
}
impl<K: Eq, V: Eq, S> Eq for HashMap<K, V, S> {}

impl<K, Q: ?Sized + Equivalent<K>, V, S> Index<&Q> for HashMap<K, V, S> {
   type Output = V;
   #[inline]
   fn index(&self, key: &Q) -> &V {
      match self.get(key) {
         Some(v) => v,
         None => panic!("no entry found for key"),
      }
   }
}

impl<K: Eq, V, S> Extend<(K, V)> for HashMap<K, V, S> {
   fn extend<T: IntoIterator<Item = (K, V)>>(&mut self, iter: T) {
      for (k, v) in iter {
         self.insert(k, v);
      }
   }
}

impl<'a, K: Eq + Copy, V: Copy, S> Extend<(&'a K, &'a V)> for HashMap<K, V, S> {
   fn extend<T: IntoIterator<Item = (&'a K, &'a V)>>(&mut self, iter: T) {
      for (k, v) in iter {
         self.insert(*k, *v);
      }
   }
}

impl<K: Eq, V, S: Default> FromIterator<(K, V)> for HashMap<K, V, S> {
   fn from_iter<T: IntoIterator<Item = (K, V)>>(iter: T) -> Self {
      let mut res = Self::default();
      res.extend(iter);
      res
   }
}

impl<K: Eq, V, const N: usize> From<[(K, V); N]> for HashMap<K, V, DefaultHashBuilder> {
   fn from(arr: [(K, V); N]) -> Self { arr.into_iter().collect() }
}
