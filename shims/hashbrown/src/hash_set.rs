use core::fmt;

use crate::hash_map::{self, HashMap};
use crate::{DefaultHashBuilder, Equivalent};

pub struct HashSet<T, S = DefaultHashBuilder> {
   pub(crate) map: HashMap<T, (), S>,
}

impl<T, S: Default> Default for HashSet<T, S> {
   #[inline]
   fn default() -> Self { Self { map: HashMap::default() } }
}

impl<T> HashSet<T, DefaultHashBuilder> {
   #[inline]
   pub fn new() -> Self { Self::default() }
   #[inline]
   pub fn with_capacity(_capacity: usize) -> Self { Self::default() }
}

impl<T, S> HashSet<T, S> {
   #[inline]
   pub fn with_hasher(hasher: S) -> Self { Self { map: HashMap::with_hasher(hasher) } }
   #[inline]
   pub fn with_capacity_and_hasher(_capacity: usize, hasher: S) -> Self { Self::with_hasher(hasher) }
   #[inline]
   pub fn hasher(&self) -> &S { self.map.hasher() }
   #[inline]
   pub fn len(&self) -> usize { self.map.len() }
   #[inline]
   pub fn is_empty(&self) -> bool { self.map.is_empty() }
   #[inline]
   pub fn capacity(&self) -> usize { self.map.capacity() }
   #[inline]
   pub fn reserve(&mut self, _additional: usize) {}
   #[inline]
   pub fn shrink_to_fit(&mut self) {}
   #[inline]
   pub fn clear(&mut self) { self.map.clear() }
   #[inline]
   pub fn iter(&self) -> Iter<'_, T> { Iter { inner: self.map.keys() } }
   #[inline]
   pub fn drain(&mut self) -> Drain<'_, T> { Drain { inner: self.map.drain() } }
   #[inline]
   pub fn retain<F: FnMut(&T) -> bool>(&mut self, mut f: F) { self.map.retain(|k, _| f(k)) }
   #[inline]
   pub fn insert_unique_unchecked(&mut self, value: T) -> &T { self.map.insert_unique_unchecked(value, ()).0 }

   #[inline]
   pub fn contains<Q: ?Sized + Equivalent<T>>(&self, value: &Q) -> bool { self.map.contains_key(value) }
   #[inline]
   pub fn get<Q: ?Sized + Equivalent<T>>(&self, value: &Q) -> Option<&T> {
      match self.map.get_key_value(value) {
         Some((k, _)) => Some(k),
         None => None,
      }
   }
   #[inline]
   pub fn remove<Q: ?Sized + Equivalent<T>>(&mut self, value: &Q) -> bool { self.map.remove(value).is_some() }
   #[inline]
   pub fn take<Q: ?Sized + Equivalent<T>>(&mut self, value: &Q) -> Option<T> {
      match self.map.remove_entry(value) {
         Some((k, _)) => Some(k),
         None => None,
      }
   }
}

impl<T: Eq, S> HashSet<T, S> {
   /// true iff the value was not present
   #[inline]
   pub fn insert(&mut self, value: T) -> bool {
      match self.map.find(&value) {
         Some(_) => false,
         None => {
            self.map.push_entry(value, ());
            true
         },
      }
   }

   #[inline]
   pub fn replace(&mut self, value: T) -> Option<T> {
      let old = self.take(&value);
      self.map.push_entry(value, ());
      old
   }

   #[inline]
   pub fn difference<'a>(&'a self, other: &'a Self) -> Difference<'a, T, S> { Difference { iter: self.iter(), other } }
   #[inline]
   pub fn intersection<'a>(&'a self, other: &'a Self) -> Intersection<'a, T, S> {
      let (smaller, larger) = if self.len() <= other.len() { (self, other) } else { (other, self) };
      Intersection { iter: smaller.iter(), other: larger }
   }
   #[inline]
   pub fn union<'a>(&'a self, other: &'a Self) -> Union<'a, T, S> {
      Union { iter: self.iter().chain(other.difference(self)) }
   }
   pub fn is_disjoint(&self, other: &Self) -> bool { self.count_in(other) == 0 }
   pub fn is_subset(&self, other: &Self) -> bool { self.len() <= other.len() && self.count_in(other) == self.len() }
   /// number of elements of `self` that are in `other`
   fn count_in(&self, other: &Self) -> usize {
      let (mut i, mut n) = (0, 0);
      repeat_cap!({
         if i < self.map.len {
            if other.contains(self.map.entry_at(i).0) {
               n += 1;
            }
            i += 1;
         }
      });
      n
   }
   pub fn is_superset(&self, other: &Self) -> bool { other.is_subset(self) }
}

// ---------------------------------------------------------------- iterators

pub struct Iter<'a, T> {
   inner: hash_map::Keys<'a, T, ()>,
}
impl<T> Clone for Iter<'_, T> {
   #[inline]
   fn clone(&self) -> Self { Iter { inner: self.inner.clone() } }
}
impl<'a, T> Iterator for Iter<'a, T> {
   type Item = &'a T;
   #[inline]
   fn next(&mut self) -> Option<&'a T> { self.inner.next() }
   #[inline]
   fn size_hint(&self) -> (usize, Option<usize>) { self.inner.size_hint() }
}
impl<T> ExactSizeIterator for Iter<'_, T> {}

pub struct Drain<'a, T> {
   inner: hash_map::Drain<'a, T, ()>,
}
impl<T> Iterator for Drain<'_, T> {
   type Item = T;
   #[inline]
   fn next(&mut self) -> Option<T> {
      match self.inner.next() {
         Some((k, _)) => Some(k),
         None => None,
      }
   }
   #[inline]
   fn size_hint(&self) -> (usize, Option<usize>) { self.inner.size_hint() }
}
impl<T> ExactSizeIterator for Drain<'_, T> {}

pub struct IntoIter<T> {
   inner: hash_map::IntoIter<T, ()>,
}
impl<T> Iterator for IntoIter<T> {
   type Item = T;
   #[inline]
   fn next(&mut self) -> Option<T> {
      match self.inner.next() {
         Some((k, _)) => Some(k),
         None => None,
      }
   }
   #[inline]
   fn size_hint(&self) -> (usize, Option<usize>) { self.inner.size_hint() }
}
impl<T> ExactSizeIterator for IntoIter<T> {}

pub struct Intersection<'a, T, S> {
   iter: Iter<'a, T>,
   other: &'a HashSet<T, S>,
}
impl<T, S> Clone for Intersection<'_, T, S> {
   #[inline]
   fn clone(&self) -> Self { Intersection { iter: self.iter.clone(), other: self.other } }
}
impl<'a, T: Eq, S> Iterator for Intersection<'a, T, S> {
   type Item = &'a T;
   #[inline]
   fn next(&mut self) -> Option<&'a T> {
      repeat_cap!({
         match self.iter.next() {
            None => return None,
            Some(elt) =>
               if self.other.contains(elt) {
                  return Some(elt);
               },
         }
      });
      None
   }
   #[inline]
   fn size_hint(&self) -> (usize, Option<usize>) { (0, self.iter.size_hint().1) }
}

pub struct Difference<'a, T, S> {
   iter: Iter<'a, T>,
   other: &'a HashSet<T, S>,
}
impl<T, S> Clone for Difference<'_, T, S> {
   #[inline]
   fn clone(&self) -> Self { Difference { iter: self.iter.clone(), other: self.other } }
}
impl<'a, T: Eq, S> Iterator for Difference<'a, T, S> {
   type Item = &'a T;
   #[inline]
   fn next(&mut self) -> Option<&'a T> {
      repeat_cap!({
         match self.iter.next() {
            None => return None,
            Some(elt) =>
               if !self.other.contains(elt) {
                  return Some(elt);
               },
         }
      });
      None
   }
   #[inline]
   fn size_hint(&self) -> (usize, Option<usize>) { (0, self.iter.size_hint().1) }
}

pub struct Union<'a, T, S> {
   iter: core::iter::Chain<Iter<'a, T>, Difference<'a, T, S>>,
}
impl<T, S> Clone for Union<'_, T, S> {
   #[inline]
   fn clone(&self) -> Self { Union { iter: self.iter.clone() } }
}
impl<'a, T: Eq, S> Iterator for Union<'a, T, S> {
   type Item = &'a T;
   #[inline]
   fn next(&mut self) -> Option<&'a T> { self.iter.next() }
}

impl<T, S> IntoIterator for HashSet<T, S> {
   type Item = T;
   type IntoIter = IntoIter<T>;
   #[inline]
   fn into_iter(self) -> IntoIter<T> { IntoIter { inner: self.map.into_iter() } }
}

impl<'a, T, S> IntoIterator for &'a HashSet<T, S> {
   type Item = &'a T;
   type IntoIter = Iter<'a, T>;
   #[inline]
   fn into_iter(self) -> Iter<'a, T> { self.iter() }
}

// ---------------------------------------------------------------- std traits

impl<T: Clone, S: Clone> Clone for HashSet<T, S> {
   #[inline]
   fn clone(&self) -> Self { Self { map: self.map.clone() } }
}

impl<T: fmt::Debug, S> fmt::Debug for HashSet<T, S> {
   fn fmt(&self, f: &mut fmt::Formatter<'_>) -> fmt::Result { f.debug_set().entries(self.iter()).finish() }
}

impl<T: Eq, S> PartialEq for HashSet<T, S> {
   fn eq(&self, other: &Self) -> bool { self.len() == other.len() && self.count_in(other) == self.len() }
}
impl<T: Eq, S> Eq for HashSet<T, S> {}

impl<T: Eq, S> Extend<T> for HashSet<T, S> {
   fn extend<I: IntoIterator<Item = T>>(&mut self, iter: I) {
      for v in iter {
         self.insert(v);
      }
   }
}

impl<'a, T: 'a + Eq + Copy, S> Extend<&'a T> for HashSet<T, S> {
   fn extend<I: IntoIterator<Item = &'a T>>(&mut self, iter: I) {
      for v in iter {
         self.insert(*v);
      }
   }
}

impl<T: Eq, S: Default> FromIterator<T> for HashSet<T, S> {
   fn from_iter<I: IntoIterator<Item = T>>(iter: I) -> Self {
      let mut res = Self::default();
      res.extend(iter);
      res
   }
}

impl<T: Eq, const N: usize> From<[T; N]> for HashSet<T, DefaultHashBuilder> {
   fn from(arr: [T; N]) -> Self { arr.into_iter().collect() }
}
