//! Table model: a drop-in replacement for the subset of `hashbrown` 0.14 that `ascent`
//! (non-parallel) and `ascent-byods-rels` use.
//!
//! * `HashMap<K, V, S>` = `[Option<(K, V)>; CAP]` + length; `HashSet<T, S>` = `HashMap<T, (), S>`.
//! * linear search with `Equivalent`/`Eq`; no hashing (the hasher parameter `S` is carried and
//!   ignored); no heap.
//! * the array is always dense: entries `0..len` are `Some`, the rest `None`;
//!   iteration order = insertion order, except that `remove` moves the last entry into the hole.
//! * exceeding `CAP` panics with "capacity of the table model exceeded"; the verification
//!   driver treats that like a failed unwinding assertion (bound too small), never as a pass.
#![allow(clippy::all)]

/// Capacity of every table.
#[cfg(kani)]
pub const CAP: usize = 8;
#[cfg(not(kani))]
pub const CAP: usize = 16;

/// Never invoked; only names a type for the default hasher parameter.
pub type DefaultHashBuilder = core::hash::BuildHasherDefault<std::collections::hash_map::DefaultHasher>;

/// Key equivalence trait (as in hashbrown / the `equivalent` crate).
pub trait Equivalent<K: ?Sized> {
   fn equivalent(&self, key: &K) -> bool;
}

impl<Q: ?Sized, K: ?Sized> Equivalent<K> for Q
where
   Q: Eq,
   K: core::borrow::Borrow<Q>,
{
   #[inline]
   fn equivalent(&self, key: &K) -> bool { self == key.borrow() }
}

#[cold]
#[inline(never)]
pub(crate) fn overflow() -> ! { panic!("capacity of the table model exceeded") }

pub mod hash_map;
pub mod hash_set;

pub use hash_map::HashMap;
pub use hash_set::HashSet;
