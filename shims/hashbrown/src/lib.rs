//! Table model: a drop-in replacement for the subset of `hashbrown` 0.14 that `ascent`
//! (non-parallel) and `ascent-byods-rels` use.
//!
//! * `HashMap<K, V, S>` = `[Option<(K, V)>; CAP]` + length; `HashSet<T, S>` = `HashMap<T, (), S>`.
//! * linear search with `Equivalent`/`Eq`; no hashing (the hasher parameter `S` is carried and
//!   ignored); no heap.
//! * the array is always dense: entries `0..len` are `Some`, the rest `None`;
//!   iteration order = insertion order, except that `remove` moves the last entry into the hole.
//! * exceeding `CAP` panics with "capacity of the table model exceeded"; the verification
//!   driver treats that like a failed unwinding assertion (bound too small), never as a pass.
#![allow(clippy::all)]

/// Capacity of every table: 4 under Kani (8 with `--cfg table_cap8`), 16 natively.
/// Measured (Kani 0.68): four inserts + one lookup in a table of inline values cost 204 K SAT
/// variables / 8 s at capacity 4 and 619 K / 79 s at capacity 8, so the small capacity is the
/// default for harnesses; exceeding it is always reported, never hidden.
#[cfg(all(kani, not(table_cap8)))]
pub const CAP: usize = 4;
#[cfg(all(kani, table_cap8))]
pub const CAP: usize = 8;
#[cfg(not(kani))]
pub const CAP: usize = 16;

/// Never invoked; only names a type for the default hasher parameter.
pub type DefaultHashBuilder = core::hash::BuildHasherDefault<std::collections::hash_map::DefaultHasher>;

/// Key equivalence trait (as in hashbrown / the `equivalent` crate).
pub trait Equivalent<K: ?Sized> {
   fn equivalent(&self, key: &K) -> bool;
}

impl<Q: ?Sized, K: ?Sized> Equivalent<K> for Q
where
   Q: Eq,
   K: core::borrow::Borrow<Q>,
{
   #[inline]
   fn equivalent(&self, key: &K) -> bool { self == key.borrow() }
}

#[cold]
#[inline(never)]
pub(crate) fn overflow() -> ! { panic!("capacity of the table model exceeded") }

/// Runs the block `CAP` times.  Under Kani the block is *textually repeated* instead of looped,
/// so that the model's internal scans (key search, clone, drop, retain, set algebra) do not
/// depend on the harness's loop-unwinding bound; each copy is guarded by the live length.
/// The block must not `break`/`continue`; `return` is fine.
#[cfg(all(kani, not(table_cap8)))]
macro_rules! repeat_cap {
   ($b:block) => {{
      const _: () = assert!($crate::CAP == 4);
      $b $b $b $b
   }};
}
#[cfg(all(kani, table_cap8))]
macro_rules! repeat_cap {
   ($b:block) => {{
      const _: () = assert!($crate::CAP == 8);
      $b $b $b $b $b $b $b $b
   }};
}
#[cfg(not(kani))]
macro_rules! repeat_cap {
   ($b:block) => {{
      for _ in 0..$crate::CAP $b
   }};
}

pub mod hash_map;
pub mod hash_set;

pub use hash_map::HashMap;
pub use hash_set::HashSet;
