//! Differential test of the table model against `std::collections::{HashMap, HashSet}` (which
//! are hashbrown behind a façade) on seeded random operation sequences over the API subset.
//! This tests the *model*; it is not part of any verdict about /repo.
use std::collections::{HashMap as StdMap, HashSet as StdSet};
use std::rc::Rc;

use hashbrown::hash_map::{Entry, RawEntryMut};
use hashbrown::{HashMap, HashSet, CAP};

struct Lcg(u64);
impl Lcg {
   fn next(&mut self) -> u64 {
      self.0 = self.0.wrapping_mul(6364136223846793005).wrapping_add(1442695040888963407);
      self.0 >> 33
   }
   fn below(&mut self, n: u64) -> u64 { self.next() % n }
}

fn sorted<T: Ord>(mut v: Vec<T>) -> Vec<T> {
   v.sort();
   v
}

fn same_map(m: &HashMap<u8, Vec<u8>>, r: &StdMap<u8, Vec<u8>>) {
   assert_eq!(m.len(), r.len());
   assert_eq!(m.is_empty(), r.is_empty());
   assert_eq!(sorted(m.iter().map(|(k, v)| (*k, v.clone())).collect()), sorted(r.iter().map(|(k, v)| (*k, v.clone())).collect()));
   assert_eq!(sorted(m.keys().cloned().collect()), sorted(r.keys().cloned().collect()));
   assert_eq!(sorted(m.values().cloned().collect()), sorted(r.values().cloned().collect()));
   for k in 0..=255u8 {
      assert_eq!(m.get(&k), r.get(&k));
      assert_eq!(m.contains_key(&k), r.contains_key(&k));
      assert_eq!(m.get_key_value(&k), r.get_key_value(&k));
   }
}

#[test]
fn map_ops() {
   for seed in 0..400u64 {
      let mut g = Lcg(seed * 7919 + 1);
      let mut m: HashMap<u8, Vec<u8>> = HashMap::new();
      let mut r: StdMap<u8, Vec<u8>> = StdMap::new();
      let dom = 2 + g.below(CAP as u64 - 2); // key domain never exceeds CAP
      for _ in 0..60 {
         let k = g.below(dom) as u8;
         let v = g.below(4) as u8;
         match g.below(16) {
            0 => assert_eq!(m.insert(k, vec![v]), r.insert(k, vec![v])),
            1 => assert_eq!(m.remove(&k), r.remove(&k)),
            2 => {
               m.entry(k).or_default().push(v);
               r.entry(k).or_default().push(v);
            },
            3 => {
               match m.entry(k) {
                  Entry::Occupied(mut o) => o.get_mut().push(v),
                  Entry::Vacant(vac) => {
                     vac.insert(vec![v, v]);
                  },
               }
               match r.entry(k) {
                  std::collections::hash_map::Entry::Occupied(mut o) => o.get_mut().push(v),
                  std::collections::hash_map::Entry::Vacant(vac) => {
                     vac.insert(vec![v, v]);
                  },
               }
            },
            4 => {
               match m.raw_entry_mut().from_key(&k) {
                  RawEntryMut::Occupied(mut o) => o.get_mut().push(v),
                  RawEntryMut::Vacant(vac) => {
                     vac.insert(k, vec![v]);
                  },
               }
               r.entry(k).or_default().push(v);
            },
            5 => {
               m.raw_entry_mut().from_key_hashed_nocheck(12345, &k).or_insert_with(|| (k, vec![])).1.push(v);
               r.entry(k).or_default().push(v);
            },
            6 => {
               if let Some(x) = m.get_mut(&k) {
                  x.push(v)
               }
               if let Some(x) = r.get_mut(&k) {
                  x.push(v)
               }
            },
            7 => {
               m.retain(|kk, vv| (*kk + vv.len() as u8) % 3 != v % 3);
               r.retain(|kk, vv| (*kk + vv.len() as u8) % 3 != v % 3);
            },
            8 => {
               let a = sorted(m.drain().collect::<Vec<_>>());
               let b = sorted(r.drain().collect::<Vec<_>>());
               assert_eq!(a, b);
            },
            9 => {
               // partially consumed drain still empties the map
               let a = m.drain().next().is_some();
               let b = r.drain().next().is_some();
               assert_eq!(a, b);
            },
            10 => {
               m.extend([(k, vec![v]), (v, vec![k])]);
               r.extend([(k, vec![v]), (v, vec![k])]);
            },
            11 => {
               for x in m.values_mut() {
                  x.push(v)
               }
               for x in r.values_mut() {
                  x.push(v)
               }
            },
            12 => {
               let c = m.clone();
               assert!(c == m);
               same_map(&c, &r);
               let a = sorted(c.into_iter().collect::<Vec<_>>());
               let b = sorted(r.clone().into_iter().collect::<Vec<_>>());
               assert_eq!(a, b);
            },
            13 => {
               if let Entry::Occupied(o) = m.entry(k) {
                  let x = o.remove();
                  assert_eq!(Some(x), r.remove(&k));
               } else {
                  assert!(!r.contains_key(&k));
               }
            },
            14 => {
               m.clear();
               r.clear();
            },
            _ => {
               if r.contains_key(&k) {
                  assert_eq!(m[&k], r[&k]);
               }
            },
         }
         same_map(&m, &r);
      }
   }
}

#[test]
fn set_ops() {
   for seed in 0..400u64 {
      let mut g = Lcg(seed * 104729 + 3);
      let mut a: HashSet<u8> = HashSet::new();
      let mut b: HashSet<u8> = HashSet::new();
      let mut ra: StdSet<u8> = StdSet::new();
      let mut rb: StdSet<u8> = StdSet::new();
      let dom = 2 + g.below(CAP as u64 - 2);
      for _ in 0..60 {
         let x = g.below(dom) as u8;
         match g.below(12) {
            0 | 1 => assert_eq!(a.insert(x), ra.insert(x)),
            2 | 3 => assert_eq!(b.insert(x), rb.insert(x)),
            4 => assert_eq!(a.remove(&x), ra.remove(&x)),
            5 => assert_eq!(b.remove(&x), rb.remove(&x)),
            6 => {
               a.retain(|y| *y != x);
               ra.retain(|y| *y != x);
            },
            7 => {
               a.extend(b.iter().cloned());
               ra.extend(rb.iter().cloned());
            },
            8 => {
               let d = sorted(b.drain().collect::<Vec<_>>());
               let rd = sorted(rb.drain().collect::<Vec<_>>());
               assert_eq!(d, rd);
            },
            9 => {
               let taken = std::mem::take(&mut b);
               let rtaken = std::mem::take(&mut rb);
               a.extend(taken);
               ra.extend(rtaken);
            },
            10 => {
               if !ra.contains(&x) {
                  a.insert_unique_unchecked(x);
                  ra.insert(x);
               }
            },
            _ => {
               a = HashSet::from_iter([x]);
               ra = StdSet::from_iter([x]);
            },
         }
         assert_eq!(a.len(), ra.len());
         assert_eq!(sorted(a.iter().cloned().collect()), sorted(ra.iter().cloned().collect()));
         assert_eq!(sorted(b.iter().cloned().collect()), sorted(rb.iter().cloned().collect()));
         assert_eq!(sorted(a.intersection(&b).cloned().collect()), sorted(ra.intersection(&rb).cloned().collect()));
         assert_eq!(sorted(a.difference(&b).cloned().collect()), sorted(ra.difference(&rb).cloned().collect()));
         assert_eq!(sorted(a.union(&b).cloned().collect()), sorted(ra.union(&rb).cloned().collect()));
         assert_eq!(a.is_disjoint(&b), ra.is_disjoint(&rb));
         assert_eq!(a.is_subset(&b), ra.is_subset(&rb));
         assert_eq!(a.contains(&x), ra.contains(&x));
         assert_eq!(a == b, ra == rb);
         assert_eq!(a.clone() == a, true);
      }
   }
}

/// every value is dropped exactly once (the model manages initialisation by hand)
#[test]
fn drops_balance() {
   for seed in 0..200u64 {
      let mut g = Lcg(seed + 17);
      let token = Rc::new(());
      {
         let mut m: HashMap<u8, Rc<()>> = HashMap::new();
         for _ in 0..40 {
            let k = g.below(CAP.min(6) as u64) as u8;
            match g.below(8) {
               0 | 1 | 2 => {
                  m.insert(k, token.clone());
               },
               3 => {
                  m.remove(&k);
               },
               4 => {
                  let _ = m.drain().next();
               },
               5 => m.retain(|kk, _| *kk != k),
               6 => {
                  let c = m.clone();
                  let mut it = c.into_iter();
                  let _ = it.next();
               },
               _ => {
                  let old = std::mem::take(&mut m);
                  for (kk, v) in old {
                     if kk != k {
                        m.insert(kk, v);
                     }
                  }
               },
            }
            assert_eq!(Rc::strong_count(&token), 1 + m.len());
         }
      }
      assert_eq!(Rc::strong_count(&token), 1);
   }
}

#[test]
#[should_panic(expected = "capacity of the table model exceeded")]
fn overflow_panics() {
   let mut m: HashMap<usize, ()> = HashMap::new();
   for i in 0..=CAP {
      m.insert(i, ());
   }
}
