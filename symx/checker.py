"""check one program under one scenario: symbolic execution, oracle, solver queries, native replay,
translator validation."""
import time, random, json, os
import z3
from .sym import *
from .values import *
from . import lang as L
from .scenario import Scenario, Outcome, Query
from .corpus import rust_debug, parse_dump
from .interp import OverflowBound
from .sym import *

SOLVER_TIMEOUT_MS = 120_000


def solve(solver, cond, timeout_ms=SOLVER_TIMEOUT_MS):
    """ask z3 for the verdict on a (canonical) condition; returns (verdict, assignment|None, seconds)"""
    t0 = time.time()
    s = z3.Solver()
    s.set("timeout", timeout_ms)
    s.add(z(cond))
    r = s.check()
    asg = model_assignment(s.model()) if r == z3.sat else None
    verdict = str(r)
    # canonical form cross-check: a BDD is unsatisfiable iff it is the constant False
    if (verdict == "unsat") != (cond is False) and verdict in ("sat", "unsat"):
        raise Unsupported("z3 verdict %s disagrees with the canonical form of the condition" % verdict)
    if CROSS_CHECK["on"] and verdict in ("sat", "unsat"):
        other = cvc5_verdict(s.to_smt2())
        CROSS_CHECK["n"] += 1
        if other != verdict:
            raise Unsupported("cvc5 answered %s where z3 answered %s" % (other, verdict))
    return verdict, asg, time.time() - t0


CROSS_CHECK = {"on": False, "n": 0}


def cvc5_verdict(smt2):
    import subprocess
    p = subprocess.run(["cvc5", "--lang", "smt2"], input=smt2, stdout=subprocess.PIPE, stderr=subprocess.PIPE, text=True, timeout=300)
    out = p.stdout.strip().splitlines()
    if any(l.startswith("(error") for l in out) or not out:
        return "error: " + (p.stdout + p.stderr)[:200]
    return out[0].strip()


def native_rows(dump, prog):
    """{rel: [row strings]} -> same with missing relations filled"""
    return {rn: sorted(dump.get(rn, [])) for rn, r in prog.relmap.items() if not r.ds}


def compare_native(prog, sc, dumps, rets, expected, dbA, dbB, kind_hint):
    """compare native dumps with the concrete reference model. Returns list of (kind, text)."""
    problems = []
    exp = {rn: sorted(rust_debug(t) for t in rows) for rn, rows in expected.items()}

    def dup_allow(rn, row):
        na = [rust_debug(t) for t in dbA.get(rn, [])].count(row)
        nb = [rust_debug(t) for t in (dbB or {}).get(rn, [])].count(row)
        return max(1, na) + nb

    def full_check(i, label):
        got = native_rows(dumps[i], prog)
        for rn in exp:
            gs, es = sorted(set(got[rn])), exp[rn]
            if gs != es:
                missing = [x for x in es if x not in gs]
                extra = [x for x in gs if x not in es]
                problems.append(("mismatch", "%s: relation %s differs from the least model: missing %s, unexpected %s" % (label, rn, missing[:6], extra[:6])))
            if prog.relmap[rn].lattice:
                keys = [r.rsplit(",", 1)[0] for r in got[rn]]
                for k in set(keys):
                    if keys.count(k) > 1:
                        problems.append(("duplicate", "%s: lattice %s has %d rows for key %s)" % (label, rn, keys.count(k), k)))
            else:
                for row in set(got[rn]):
                    if got[rn].count(row) > dup_allow(rn, row):
                        problems.append(("duplicate", "%s: relation %s holds row %s %d times" % (label, rn, row, got[rn].count(row))))

    def sound_check(i, label):
        got = native_rows(dumps[i], prog)
        for rn in exp:
            if prog.relmap[rn].lattice:
                continue  # lattice soundness needs the order; handled by the symbolic side only
            extra = [x for x in set(got[rn]) if x not in exp[rn]]
            if extra:
                problems.append(("mismatch", "%s: relation %s holds underivable rows %s after an interrupted run" % (label, rn, extra[:6])))

    k = sc.kind
    if k == "idem":
        g1, g2 = native_rows(dumps[0], prog), native_rows(dumps[1], prog)
        for rn in g1:
            a1, a2 = sorted(set(g1[rn])), sorted(set(g2[rn]))
            if a1 != a2:
                problems.append(("mismatch", "second run() changed relation %s: added %s, removed %s" % (rn, [x for x in a2 if x not in a1][:6], [x for x in a1 if x not in a2][:6])))
    elif k in ("run", "push"):
        full_check(0, "after run")
    elif k == "rerun":
        full_check(0, "after first run")
        full_check(1, "after second run")
    elif k == "timeout":
        # mirror of the symbolic queries: only states reached through an interrupted first call count
        r1 = rets[0] if rets else True
        r2 = rets[1] if len(rets) > 1 else True
        if r1:
            full_check(0, "run_timeout #1 returned true")
        else:
            sound_check(0, "run_timeout #1 returned false")
            if r2:
                full_check(1, "resumed run_timeout returned true")
            else:
                sound_check(1, "resumed run_timeout returned false")
                full_check(2, "run() after two interrupted calls")
    return problems


def check_program(corpus, mod_ast, prog, sc, rng, V=3, features=None):
    out = Outcome(prog, sc)
    t0 = time.time()
    try:
        ex = sc.execute(mod_ast, prog)
        out.stats["exec_s"] = round(time.time() - t0, 2)
        t1 = time.time()
        sc.oracle(prog)
        out.stats["oracle_s"] = round(time.time() - t1, 2)
        qs = sc.queries(prog)
    except Unsupported as e:
        out.status, out.detail = "inconclusive", "unsupported: " + str(e)
        return out
    except BddBlowup:
        cap = getattr(sc, "input_cap", 72)
        if cap > 20:
            sc.input_cap = cap // 2
            o2 = check_program(corpus, mod_ast, prog, sc, rng, V, features)
            o2.stats["input_cap_lowered_to"] = sc.input_cap
            return o2
        out.status, out.detail = "inconclusive", "canonical forms exceed the node budget even with %d input variables" % cap
        return out
    except OverflowBound:
        if sc.maxm < 4:
            sc.maxm += 1
            o2 = check_program(corpus, mod_ast, prog, sc, rng, V, features)
            o2.stats["maxm_raised_to"] = sc.maxm
            return o2
        # the encoding gives up (rows pile up beyond its multiplicity bound).  Last resort: a few random databases
        # on the real build against the reference model; a reproduced problem there is reported as a violation,
        # otherwise the job stays inconclusive
        if sc.kind in ("run", "rerun", "idem", "timeout") and getattr(sc, "A", None) is not None:
            for _i in range(6):
                dbA = sc.A.random_db(rng, density=rng.choice([0.3, 0.5, 0.7]))
                ks = [rng.randrange(1, 5), rng.randrange(0, 4)] if sc.kind == "timeout" else []
                lines = sc.script_lines(prog, dbA, None, ks)
                rec = replay(corpus, prog, sc, lines, dbA, None, "duplicate")
                if rec["problems"]:
                    rec["query"] = "random database after the encoding's multiplicity bound overflowed"
                    out.cex = {"query": rec["query"], "kind": rec["problems"][0][0], "inputs": {k: [rust_repr(t) for t in v] for k, v in dbA.items()},
                               "pushed": None, "deadline_checks": ks}
                    out.replay = rec
                    out.cexes.append((out.cex, rec))
                    out.status = "violation"
                    out.detail = "multiplicity bound of the encoding overflowed; on the real build: " + "; ".join(t for _, t in rec["problems"][:3])
                    return out
        out.status, out.detail = "inconclusive", "row multiplicity exceeds the encoding bound MAXM=%d" % sc.maxm
        return out
    out.stats.update(manager_stats())
    out.stats.update({"steps": ex.ctx.steps, "loop_iters": ex.ctx.loop_iters, "unroll_solver_calls": ex.ctx.solver_calls,
                      "unroll_solver_s": round(ex.ctx.solver_time, 2), "oracle_rounds": sc.ref_stats["rounds"],
                      "input_vars": sc.A.nvars() + (sc.B.nvars() if sc.B else 0),
                      "deadline_vars": len(ex.ctx.deadlines)})
    out.queries = qs
    solver = sc.solver
    # vacuity witness: which (core) rules can fire for some database of the universe
    fire = sc.ref_stats.get("rule_fire", {})
    fireable = 0
    for i, cnd in fire.items():
        fireable += 1 if cnd is not False else 0
    out.stats["rules_fireable"] = [fireable, len(fire)]
    if sc.B is not None:
        pass  # constraints of B were added during execute
    for q in qs:
        verdict, model, dt = solve(solver, q.cond)
        q.verdict, q.time = verdict, round(dt, 3)
        if verdict == "unsat":
            continue
        if verdict != "sat":
            out.status, out.detail = "inconclusive", "solver answered %s on %s" % (verdict, q.name)
            return out
        if q.kind == "overflow":
            # the multiplicity bound of the *encoding* was exceeded: retry with a larger bound
            if sc.maxm < 4:
                sc.maxm += 1
                o2 = check_program(corpus, mod_ast, prog, sc, rng, V, features)
                o2.stats["maxm_raised_to"] = sc.maxm
                return o2
            # the bound of the encoding is exhausted: the database that overflows it is replayed on the real build;
            # if the real program misbehaves there (rows piling up), that is a reproduced violation
            dbA, dbB, ks = sc.concrete_dbs(model)
            lines = sc.script_lines(prog, dbA, dbB, ks)
            rec = replay(corpus, prog, sc, lines, dbA, dbB, "duplicate")
            rec["query"] = q.name
            if rec["problems"]:
                cex = {"query": q.name, "kind": rec["problems"][0][0], "inputs": {k: [rust_repr(t) for t in v] for k, v in dbA.items()},
                       "pushed": ({k: [rust_repr(t) for t in v] for k, v in dbB.items()} if dbB else None), "deadline_checks": ks}
                out.cexes.append((cex, rec))
                out.cex, out.replay = cex, rec
                out.status = "violation"
                out.detail = "found where the multiplicity bound of the encoding overflows: " + "; ".join(t for _, t in rec["problems"][:3])
                return out
            out.status, out.detail = "inconclusive", "row multiplicity exceeds the encoding bound MAXM=%d" % sc.maxm
            return out
        # counterexample: replay against the real build
        dbA, dbB, ks = sc.concrete_dbs(model)  # model = assignment {var: bool}
        lines = sc.script_lines(prog, dbA, dbB, ks)
        rec = replay(corpus, prog, sc, lines, dbA, dbB, q.kind)
        rec["query"] = q.name
        cex = {"query": q.name, "kind": q.kind, "inputs": {k: [rust_repr(t) for t in v] for k, v in dbA.items()},
               "pushed": ({k: [rust_repr(t) for t in v] for k, v in dbB.items()} if dbB else None), "deadline_checks": ks}
        if sc.kind == "timeout":
            cex["interrupted_in_scc"] = sc.interrupted_sccs(model)
            cex["strata_owning_all_aggregated_indices"] = sorted(sc.strata_owning_all_aggregated_indices(prog))
        if rec["problems"]:
            out.cexes.append((cex, rec))
            if out.cex is None:
                out.cex, out.replay = cex, rec
            out.status = "violation"
            out.detail = "; ".join(t for _, t in out.replay["problems"][:3])
            continue   # keep deciding the remaining queries: a second, different violation must not hide behind this one
        out.cex, out.replay = cex, rec
        out.status = "inconclusive"
        out.detail = "counterexample of %s did not reproduce natively (encoder / contract wrong?)" % q.name
        return out
    if out.status == "violation":
        return out
    # translator validation on V random concrete databases
    try:
        out.validated, bad = validate(corpus, prog, sc, rng, V)
    except Unsupported as e:
        out.status, out.detail = "inconclusive", "validation unsupported: " + str(e)
        return out
    if bad:
        # the encoding (which assumes the index/merge contract) and the real program disagree on a concrete
        # database.  If the *real* program also disagrees with the reference model there, that database is a
        # natively reproduced violation of the property (the contract itself is broken in /repo); otherwise the
        # encoder is wrong and the result is inconclusive.
        msg, job = bad
        rec = None
        if job is not None:
            dbA, dbB, ks = job
            lines = sc.script_lines(prog, dbA, dbB, ks)
            rec = replay(corpus, prog, sc, lines, dbA, dbB, "mismatch")
        if rec and rec["problems"]:
            rec["query"] = "translator-validation database (encoding assumes the index contract; the real code broke it)"
            out.cex = {"query": rec["query"], "kind": rec["problems"][0][0], "inputs": {k: [rust_repr(t) for t in v] for k, v in dbA.items()},
                       "pushed": ({k: [rust_repr(t) for t in v] for k, v in dbB.items()} if dbB else None), "deadline_checks": ks}
            if sc.kind == "timeout":
                asg = sc.A.pin(dbA)
                sc.pin_deadlines(asg, ks)
                out.cex["interrupted_in_scc"] = sc.interrupted_sccs(asg)
                out.cex["strata_owning_all_aggregated_indices"] = sorted(sc.strata_owning_all_aggregated_indices(prog))
            out.replay = rec
            out.status = "violation"
            out.detail = "found while validating the encoding: " + "; ".join(t for _, t in rec["problems"][:3])
        else:
            out.status, out.detail = "inconclusive", "translator validation failed: " + msg
    out.stats["total_s"] = round(time.time() - t0, 2)
    out.stats["cvc5_cross_checked"] = CROSS_CHECK["n"]
    return out


def replay(corpus, prog, sc, lines, dbA, dbB, kind):
    rec = {"program": prog.name, "script": lines, "problems": []}
    import subprocess
    try:
        outs = corpus.run_native([(prog.name, lines)], timeout=40)
    except subprocess.TimeoutExpired:
        rec["problems"].append(("nonterm", "native run did not terminate within 40 s"))
        return rec
    o = outs[0]
    rec["native_output"] = o[:4000]
    if o.strip() == "PANIC":
        rec["problems"].append(("panic", "native run panicked"))
        return rec
    dumps, rets = parse_dump(o)
    expected = sc.expected_concrete(prog, dbA, dbB)
    rec["expected"] = {rn: sorted(rust_debug(t) for t in rows) for rn, rows in expected.items()}
    rec["problems"] = compare_native(prog, sc, dumps, rets, expected, dbA, dbB, kind)
    return rec


def validate(corpus, prog, sc, rng, V):
    """pin V random databases in the encoding and compare the encoding's final state (with
    multiplicities) against the natively compiled real program on the same database."""
    if V <= 0:
        return 0, None
    jobs, pins = [], []
    for i in range(V):
        dbA = sc.A.random_db(rng, density=rng.choice([0.2, 0.4, 0.6]))
        dbB = sc.B.random_db(rng, density=0.25) if sc.B is not None else None
        ks = [rng.randrange(0, 4), rng.randrange(0, 4)] if sc.kind == "timeout" else []
        jobs.append((dbA, dbB, ks))
    outs = corpus.run_native([(prog.name, sc.script_lines(prog, a, b, ks)) for a, b, ks in jobs])
    ok = 0
    for (dbA, dbB, ks), o in zip(jobs, outs):
        asg = sc.A.pin(dbA)
        if sc.B is not None:
            asg.update(sc.B.pin(dbB))
        if sc.kind == "timeout":
            sc.pin_deadlines(asg, ks)
        if o.strip() == "PANIC":
            return ok, ("native run panicked on a validation database %s" % dbA, (dbA, dbB, ks))
        dumps, rets = parse_dump(o)
        for (label, ob), dump in zip(sc.obs, dumps):
            model_rows = {}
            for rn, r in prog.relmap.items():
                if r.ds:
                    continue
                rows = []
                if r.lattice:
                    for key, slots in ob[rn].items():
                        for _, e, valts in slots:
                            if eval_b(e, asg):
                                for c, v in valts:
                                    if eval_b(c, asg):
                                        rows.append(rust_debug(tuple(key) + (v,)))
                else:
                    for t, cnt in ob[rn].items():
                        for lvl in cnt[2]:
                            if eval_b(lvl, asg):
                                rows.append(rust_debug(t))
                model_rows[rn] = sorted(rows)
            nat = native_rows(dump, prog)
            if model_rows != nat:
                diff = {rn: (model_rows[rn], nat[rn]) for rn in nat if model_rows[rn] != nat[rn]}
                return ok, ("encoding and real program disagree at '%s' on inputs %s: (encoding, native) = %s" % (label, dbA, str(diff)[:600]), (dbA, dbB, ks))
        if sc.kind == "timeout":
            for i, alts in enumerate(sc.ex.rets):
                mv = None
                for c, v in alts:
                    if eval_b(c, asg):
                        mv = v
                if i < len(rets) and mv != rets[i]:
                    return ok, ("run_timeout #%d returned %s natively but %s in the encoding (k=%s)" % (i + 1, rets[i], mv, ks), (dbA, dbB, ks))
        ok += 1
    return ok, None
