"""check one program under one scenario: symbolic execution, oracle, solver queries, native replay,
translator validation."""
import time, random, json, os
import z3
from .sym import *
from .values import *
from . import lang as L
from .scenario import Scenario, Outcome, Query
from .corpus import rust_debug, parse_dump
from .interp import OverflowBound

SOLVER_TIMEOUT_MS = 120_000


def solve(solver, cond, timeout_ms=SOLVER_TIMEOUT_MS):
    if is_const(cond):
        return ("sat" if cond else "unsat"), None, 0.0
    t0 = time.time()
    solver.push()
    solver.set("timeout", timeout_ms)
    solver.add(z(cond))
    r = solver.check()
    m = solver.model() if r == z3.sat else None
    solver.pop()
    return str(r), m, time.time() - t0


def native_rows(dump, prog):
    """{rel: [row strings]} -> same with missing relations filled"""
    return {rn: sorted(dump.get(rn, [])) for rn, r in prog.relmap.items() if not r.ds}


def compare_native(prog, sc, dumps, rets, expected, dbA, dbB, kind_hint):
    """compare native dumps with the concrete reference model. Returns list of (kind, text)."""
    problems = []
    exp = {rn: sorted(rust_debug(t) for t in rows) for rn, rows in expected.items()}

    def dup_allow(rn, row):
        na = [rust_debug(t) for t in dbA.get(rn, [])].count(row)
        nb = [rust_debug(t) for t in (dbB or {}).get(rn, [])].count(row)
        return max(1, na) + nb

    def full_check(i, label):
        got = native_rows(dumps[i], prog)
        for rn in exp:
            gs, es = sorted(set(got[rn])), exp[rn]
            if gs != es:
                missing = [x for x in es if x not in gs]
                extra = [x for x in gs if x not in es]
                problems.append(("mismatch", "%s: relation %s differs from the least model: missing %s, unexpected %s" % (label, rn, missing[:6], extra[:6])))
            if prog.relmap[rn].lattice:
                keys = [r.rsplit(",", 1)[0] for r in got[rn]]
                for k in set(keys):
                    if keys.count(k) > 1:
                        problems.append(("duplicate", "%s: lattice %s has %d rows for key %s)" % (label, rn, keys.count(k), k)))
            else:
                for row in set(got[rn]):
                    if got[rn].count(row) > dup_allow(rn, row):
                        problems.append(("duplicate", "%s: relation %s holds row %s %d times" % (label, rn, row, got[rn].count(row))))

    def sound_check(i, label):
        got = native_rows(dumps[i], prog)
        for rn in exp:
            if prog.relmap[rn].lattice:
                continue  # lattice soundness needs the order; handled by the symbolic side only
            extra = [x for x in set(got[rn]) if x not in exp[rn]]
            if extra:
                problems.append(("mismatch", "%s: relation %s holds underivable rows %s after an interrupted run" % (label, rn, extra[:6])))

    k = sc.kind
    if k in ("run", "push"):
        full_check(0, "after run")
    elif k == "rerun":
        full_check(0, "after first run")
        full_check(1, "after second run")
    elif k == "timeout":
        for i in range(2):
            if i < len(rets) and rets[i]:
                full_check(i, "run_timeout #%d returned true" % (i + 1))
            else:
                sound_check(i, "run_timeout #%d returned false" % (i + 1))
        full_check(2, "after resuming run()")
    return problems


def check_program(corpus, mod_ast, prog, sc, rng, V=3, features=None):
    out = Outcome(prog, sc)
    t0 = time.time()
    try:
        ex = sc.execute(mod_ast, prog)
        out.stats["exec_s"] = round(time.time() - t0, 2)
        t1 = time.time()
        sc.oracle(prog)
        out.stats["oracle_s"] = round(time.time() - t1, 2)
        qs = sc.queries(prog)
    except Unsupported as e:
        out.status, out.detail = "inconclusive", "unsupported: " + str(e)
        return out
    except OverflowBound:
        if sc.maxm < 4:
            sc.maxm += 1
            o2 = check_program(corpus, mod_ast, prog, sc, rng, V, features)
            o2.stats["maxm_raised_to"] = sc.maxm
            return o2
        out.status, out.detail = "inconclusive", "row multiplicity exceeds the encoding bound MAXM=%d" % sc.maxm
        return out
    out.stats.update({"steps": ex.ctx.steps, "loop_iters": ex.ctx.loop_iters, "unroll_solver_calls": ex.ctx.solver_calls,
                      "unroll_solver_s": round(ex.ctx.solver_time, 2), "oracle_rounds": sc.ref_stats["rounds"],
                      "input_vars": len(sc.A.vars) + len(sc.A.vars2) + sum(1 + len(v[1]) for v in sc.A.lat.values()) + (len(sc.B.vars) if sc.B else 0),
                      "deadline_vars": len(ex.ctx.deadlines)})
    out.queries = qs
    solver = sc.solver
    # vacuity witness: which (core) rules can fire for some database of the universe
    fire = sc.ref_stats.get("rule_fire", {})
    fireable = 0
    for i, cnd in fire.items():
        if is_const(cnd):
            fireable += 1 if cnd else 0
        else:
            v, _m, _t = solve(solver, cnd, 20_000)
            fireable += 1 if v == "sat" else 0
    out.stats["rules_fireable"] = [fireable, len(fire)]
    if sc.B is not None:
        pass  # constraints of B were added during execute
    for q in qs:
        verdict, model, dt = solve(solver, q.cond)
        q.verdict, q.time = verdict, round(dt, 3)
        if verdict == "unsat":
            continue
        if verdict != "sat":
            out.status, out.detail = "inconclusive", "solver answered %s on %s" % (verdict, q.name)
            return out
        if q.kind == "overflow":
            # the multiplicity bound of the *encoding* was exceeded: retry with a larger bound
            if sc.maxm < 4:
                sc.maxm += 1
                o2 = check_program(corpus, mod_ast, prog, sc, rng, V, features)
                o2.stats["maxm_raised_to"] = sc.maxm
                return o2
            out.status, out.detail = "inconclusive", "row multiplicity exceeds the encoding bound MAXM=%d" % sc.maxm
            return out
        # counterexample: replay against the real build
        dbA, dbB, ks = sc.concrete_dbs(model)
        lines = sc.script_lines(prog, dbA, dbB, ks)
        rec = replay(corpus, prog, sc, lines, dbA, dbB, q.kind)
        rec["query"] = q.name
        out.cex = {"query": q.name, "kind": q.kind, "inputs": {k: [rust_repr(t) for t in v] for k, v in dbA.items()},
                   "pushed": ({k: [rust_repr(t) for t in v] for k, v in dbB.items()} if dbB else None), "deadline_checks": ks}
        out.replay = rec
        if rec["problems"]:
            out.status = "violation"
            out.detail = "; ".join(t for _, t in rec["problems"][:3])
        else:
            out.status = "inconclusive"
            out.detail = "counterexample of %s did not reproduce natively (encoder / contract wrong?)" % q.name
        return out
    # translator validation on V random concrete databases
    try:
        out.validated, bad = validate(corpus, prog, sc, rng, V)
    except Unsupported as e:
        out.status, out.detail = "inconclusive", "validation unsupported: " + str(e)
        return out
    if bad:
        out.status, out.detail = "inconclusive", "translator validation failed: " + bad
    out.stats["total_s"] = round(time.time() - t0, 2)
    return out


def replay(corpus, prog, sc, lines, dbA, dbB, kind):
    rec = {"program": prog.name, "script": lines, "problems": []}
    import subprocess
    try:
        outs = corpus.run_native([(prog.name, lines)], timeout=40)
    except subprocess.TimeoutExpired:
        rec["problems"].append(("nonterm", "native run did not terminate within 40 s"))
        return rec
    o = outs[0]
    rec["native_output"] = o[:4000]
    if o.strip() == "PANIC":
        rec["problems"].append(("panic", "native run panicked"))
        return rec
    dumps, rets = parse_dump(o)
    expected = sc.expected_concrete(prog, dbA, dbB)
    rec["expected"] = {rn: sorted(rust_debug(t) for t in rows) for rn, rows in expected.items()}
    rec["problems"] = compare_native(prog, sc, dumps, rets, expected, dbA, dbB, kind)
    return rec


def validate(corpus, prog, sc, rng, V):
    """pin V random databases in the encoding and compare the encoding's final state (with
    multiplicities) against the natively compiled real program on the same database."""
    if V <= 0:
        return 0, None
    jobs, pins = [], []
    for i in range(V):
        dbA = sc.A.random_db(rng, density=rng.choice([0.2, 0.4, 0.6]))
        dbB = sc.B.random_db(rng, density=0.25) if sc.B is not None else None
        ks = [rng.randrange(0, 4), rng.randrange(0, 4)] if sc.kind == "timeout" else []
        jobs.append((dbA, dbB, ks))
    outs = corpus.run_native([(prog.name, sc.script_lines(prog, a, b, ks)) for a, b, ks in jobs])
    ok = 0
    for (dbA, dbB, ks), o in zip(jobs, outs):
        cs = sc.A.pin(dbA) + (sc.B.pin(dbB) if sc.B is not None else [])
        if sc.kind == "timeout":
            cs += pin_deadlines(sc, ks)
        s = sc.solver
        s.push()
        s.add(*cs)
        r = s.check()
        if r != z3.sat:
            s.pop()
            return ok, "pinned database unsatisfiable (%s)" % r
        m = s.model()
        s.pop()
        if o.strip() == "PANIC":
            return ok, "native run panicked on a validation database %s" % dbA
        dumps, rets = parse_dump(o)
        for (label, ob), dump in zip(sc.obs, dumps):
            model_rows = {}
            for rn, r in prog.relmap.items():
                if r.ds:
                    continue
                rows = []
                if r.lattice:
                    for key, slots in ob[rn].items():
                        for _, e, valts in slots:
                            if z3.is_true(m.eval(z(e), model_completion=True)):
                                for c, v in valts:
                                    if z3.is_true(m.eval(z(c), model_completion=True)):
                                        rows.append(rust_debug(tuple(key) + (v,)))
                else:
                    for t, (p1, p2) in ob[rn].items():
                        if z3.is_true(m.eval(z(p1), model_completion=True)):
                            rows.append(rust_debug(t))
                            if z3.is_true(m.eval(z(p2), model_completion=True)):
                                rows.append(rust_debug(t))
                model_rows[rn] = sorted(rows)
            nat = native_rows(dump, prog)
            if model_rows != nat:
                diff = {rn: (model_rows[rn], nat[rn]) for rn in nat if model_rows[rn] != nat[rn]}
                return ok, "encoding and real program disagree at '%s' on inputs %s: (encoding, native) = %s" % (label, dbA, str(diff)[:600])
        if sc.kind == "timeout":
            for i, alts in enumerate(sc.ex.rets):
                mv = None
                for c, v in alts:
                    if z3.is_true(m.eval(z(c), model_completion=True)):
                        mv = v
                if i < len(rets) and mv != rets[i]:
                    return ok, "run_timeout #%d returned %s natively but %s in the encoding (k=%s)" % (i + 1, rets[i], mv, ks)
        ok += 1
    return ok, None


def pin_deadlines(sc, ks):
    """constraints making the k-th *reached* deadline check of each call fire (k=0: none fires)"""
    cs = []
    ctx = sc.ex.ctx
    for call in range(2):
        k = ks[call]
        dl = [d for d in ctx.deadline_info if d[2] == call]
        # number of reached checks before each
        cnt = 0
        for dvar, reach, _ in dl:
            reached_before = cnt  # symbolic count
            cnt = cnt + z3.If(z(reach), 1, 0)
            if k == 0:
                cs.append(z3.Not(dvar))
            else:
                # dvar fires iff it is reached and it is the k-th reached check
                cs.append(dvar == z3.And(z(reach), cnt == k))
    return cs
