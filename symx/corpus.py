"""Corpus crate: writes the programs as real `ascent!{}` invocations plus native glue, expands them
with the real proc macro (`-Zunpretty=expanded` on the nightly toolchain), converts the expansion to
JSON (tools/rs2json) and builds the native runner `corpus-run` used for translator validation and
counterexample replay."""
import os, json, hashlib, shutil, subprocess, time, re
from . import lang as L
from .values import *

VERIF = os.path.dirname(os.path.dirname(os.path.abspath(__file__)))
REPO = os.environ.get("VERIF_REPO", "/repo")
CACHE = os.path.join(VERIF, ".cache")
RS2JSON = os.path.join(VERIF, "tools", "rs2json", "target", "release", "rs2json")

VALS_RS = r'''
//! tiny value parser for the replay scripts
use ascent::Dual;
use std::cmp::Reverse;
#[derive(Debug, Clone)]
pub enum Val { Int(i128), Bool(bool), Tuple(Vec<Val>), Ctor(String, Vec<Val>) }
pub struct P<'a> { s: &'a [u8], i: usize }
impl<'a> P<'a> {
   pub fn new(s: &'a str) -> Self { P { s: s.as_bytes(), i: 0 } }
   fn ws(&mut self) { while self.i < self.s.len() && (self.s[self.i] as char).is_whitespace() { self.i += 1 } }
   fn peek(&mut self) -> Option<char> { self.ws(); self.s.get(self.i).map(|c| *c as char) }
   fn list(&mut self, close: char) -> Vec<Val> {
      let mut v = vec![];
      loop {
         match self.peek() { Some(c) if c == close => { self.i += 1; break }, Some(',') => { self.i += 1 }, Some(_) => v.push(self.val()), None => panic!("eof") }
      }
      v
   }
   pub fn val(&mut self) -> Val {
      match self.peek().expect("value") {
         '(' => { self.i += 1; Val::Tuple(self.list(')')) },
         c if c == '-' || c.is_ascii_digit() => {
            let st = self.i; self.i += 1;
            while self.i < self.s.len() && (self.s[self.i] as char).is_ascii_digit() { self.i += 1 }
            Val::Int(std::str::from_utf8(&self.s[st..self.i]).unwrap().parse().unwrap())
         },
         c if c.is_alphabetic() => {
            let st = self.i;
            while self.i < self.s.len() && ((self.s[self.i] as char).is_alphanumeric() || self.s[self.i] == b'_') { self.i += 1 }
            let name = std::str::from_utf8(&self.s[st..self.i]).unwrap().to_string();
            if name == "true" { return Val::Bool(true) }
            if name == "false" { return Val::Bool(false) }
            if self.peek() == Some('(') { self.i += 1; Val::Ctor(name, self.list(')')) } else { Val::Ctor(name, vec![]) }
         },
         c => panic!("unexpected {c}"),
      }
   }
}
pub trait FromVal: Sized { fn from_val(v: &Val) -> Self; }
macro_rules! int_from { ($($t:ty),*) => {$( impl FromVal for $t { fn from_val(v: &Val) -> Self { match v { Val::Int(i) => *i as $t, _ => panic!("int expected") } } } )*} }
int_from!(u8, u16, u32, u64, usize, i8, i16, i32, i64, isize);
impl FromVal for bool { fn from_val(v: &Val) -> Self { match v { Val::Bool(b) => *b, _ => panic!("bool expected") } } }
impl<T: FromVal> FromVal for Option<T> { fn from_val(v: &Val) -> Self { match v { Val::Ctor(n, a) if n == "Some" => Some(T::from_val(&a[0])), Val::Ctor(n, _) if n == "None" => None, _ => panic!("option expected") } } }
impl<T: FromVal> FromVal for Dual<T> { fn from_val(v: &Val) -> Self { match v { Val::Ctor(n, a) if n == "Dual" => Dual(T::from_val(&a[0])), _ => panic!("Dual expected") } } }
impl<T: FromVal> FromVal for Reverse<T> { fn from_val(v: &Val) -> Self { match v { Val::Ctor(n, a) if n == "Reverse" => Reverse(T::from_val(&a[0])), _ => panic!("Reverse expected") } } }
impl<T: FromVal> FromVal for ascent::lattice::constant_propagation::ConstPropagation<T> {
   fn from_val(v: &Val) -> Self { use ascent::lattice::constant_propagation::ConstPropagation::*;
      match v { Val::Ctor(n, a) if n == "Constant" => Constant(T::from_val(&a[0])), Val::Ctor(n, _) if n == "Top" => Top, Val::Ctor(n, _) if n == "Bottom" => Bottom, _ => panic!("ConstPropagation expected") } } }
impl FromVal for () { fn from_val(_: &Val) -> Self {} }
macro_rules! tup_from { ($($n:tt $t:ident),*) => { impl<$($t: FromVal),*> FromVal for ($($t,)*) { fn from_val(v: &Val) -> Self { match v { Val::Tuple(a) => ($($t::from_val(&a[$n]),)*), _ => panic!("tuple expected") } } } } }
tup_from!(0 A); tup_from!(0 A, 1 B); tup_from!(0 A, 1 B, 2 C); tup_from!(0 A, 1 B, 2 C, 3 D);
pub fn parse<T: FromVal>(s: &str) -> T { T::from_val(&P::new(s).val()) }
pub fn dump<T: std::fmt::Debug>(out: &mut String, name: &str, rows: &[T]) {
   for r in rows { out.push_str(&format!("{}\t{:?}\n", name, r)); }
}
'''

MAIN_RS = r'''
use std::io::Read;
fn main() {
   let mut inp = String::new();
   std::io::stdin().read_to_string(&mut inp).unwrap();
   // input: blocks separated by lines "=== <program>"; each block is a script; output mirrors the blocks
   let mut cur: Option<String> = None;
   let mut script: Vec<String> = vec![];
   let mut flush = |cur: &Option<String>, script: &Vec<String>| {
      if let Some(p) = cur {
         println!("=== {}", p);
         let res = std::panic::catch_unwind(|| corpus::exec(p, script));
         match res { Ok(s) => print!("{}", s), Err(_) => println!("PANIC") }
         println!("=== end");
      }
   };
   for line in inp.lines() {
      if let Some(p) = line.strip_prefix("=== ") { flush(&cur, &script); cur = Some(p.trim().to_string()); script.clear(); }
      else if !line.trim().is_empty() { script.push(line.to_string()); }
   }
   flush(&cur, &script);
}
'''


def _tuple_ty(r, tparams):
    tys = [tparams.get(t, t) for t in r.types]
    return "(%s%s)" % (", ".join(tys), "," if len(tys) == 1 else "")


def prog_module(p):
    """Rust module text for one program"""
    rels = [r for r in p.relmap.values() if not r.ds]
    tparams = getattr(p, "type_params", None) or {}
    main, src = L.program_parts(p, struct_decl=("pub struct Prog;" if p.kind == "ascent" else None))
    body = "\n   ".join(main)
    srcmod = ""
    if src is not None:
        srcmod = "pub mod srcs { ascent::ascent_source! { part_%s:\n   %s\n   } }" % (p.name, "\n   ".join(src))
    has_timeout = any("generate_run_timeout" in a for a in p.attrs)
    rt = ('ascent::internal::verif_clock::arm(k); let r = p.run_timeout(std::time::Duration::from_nanos(1)); out.push_str(&format!("ret\\t{}\\n", r));'
          if has_timeout else 'let _ = k; panic!("no run_timeout");')
    if p.kind == "ascent_run":
        inrels = [r for r in rels if r.init and r.init.endswith("_in")]
        params = ", ".join("%s_in: Vec<%s>" % (r.name, _tuple_ty(r, tparams)) for r in inrels)
        locals_ = "".join("let %s = %s; " % (k, rust_repr(v)) for k, v in (getattr(p, "locals", {}) or {}).items())
        ret_ty = "(%s,)" % ", ".join("Vec<%s>" % _tuple_ty(r, tparams) for r in rels)
        ret = "(%s,)" % ", ".join("__res.%s" % r.name for r in rels)
        decl = "".join("let mut %s_in: Vec<%s> = vec![]; " % (r.name, _tuple_ty(r, tparams)) for r in inrels)
        push = " ".join('"%s" => %s_in.push(parse::<%s>(row)),' % (r.name, r.name, _tuple_ty(r, tparams)) for r in inrels)
        call = "run_prog(%s)" % ", ".join("%s_in.clone()" % r.name for r in inrels)
        dump = " ".join('dump(&mut out, "%s", &res.%d);' % (r.name, i) for i, r in enumerate(rels))
        return '''
pub mod %(name)s {
   #![allow(unused_imports, unused_variables, unused_mut, dead_code, unused_parens)]
   use ascent::*;
   use ascent::aggregators::*;
   use crate::vals::*;
   %(prelude)s
   %(srcmod)s
   pub fn run_prog(%(params)s) -> %(ret_ty)s {
      %(locals)s
      let __res = ascent_run! {
   %(body)s
      };
      %(ret)s
   }
   pub fn exec(script: &[String]) -> String {
      %(decl)s
      let mut out = String::new();
      let mut res = None;
      for line in script {
         let (op, rest) = match line.split_once(' ') { Some((a, b)) => (a, b.trim()), None => (line.as_str(), "") };
         match op {
            "push" => { let (rel, row) = rest.split_once(' ').unwrap(); match rel { %(push)s _ => panic!("unknown relation") } },
            "run" => { res = Some(%(call)s); },
            "dump" => { let res = res.as_ref().unwrap(); out.push_str("--\\n"); %(dump)s },
            _ => panic!("unknown op"),
         }
      }
      out
   }
}
''' % {"name": p.name, "body": body, "params": params, "locals": locals_, "ret_ty": ret_ty, "ret": ret, "decl": decl, "push": push,
       "call": call, "dump": dump, "prelude": p.prelude, "srcmod": srcmod}
    push_arms, dump_lines = [], []
    for r in rels:
        push_arms.append('"%s" => p.%s.push(parse::<%s>(row)),' % (r.name, r.name, _tuple_ty(r, tparams)))
        dump_lines.append('dump(&mut out, "%s", &p.%s);' % (r.name, r.name))
    ctor = "Prog::<%s>::default()" % ", ".join(tparams.values()) if tparams else "Prog::default()"
    return '''
pub mod %(name)s {
   #![allow(unused_imports, unused_variables, unused_mut, dead_code, unused_parens)]
   use ascent::*;
   use ascent::aggregators::*;
   use crate::vals::*;
   %(prelude)s
   %(srcmod)s
   ascent! {
   %(body)s
   }
   pub fn exec(script: &[String]) -> String {
      let mut p = %(ctor)s;
      let mut out = String::new();
      for line in script {
         let (op, rest) = match line.split_once(' ') { Some((a, b)) => (a, b.trim()), None => (line.as_str(), "") };
         match op {
            "push" => { let (rel, row) = rest.split_once(' ').unwrap(); match rel { %(push)s _ => panic!("unknown relation") } },
            "run" => p.run(),
            "run_timeout" => { let k: usize = rest.parse().unwrap(); %(rt)s },
            "dump" => { out.push_str("--\\n"); %(dump)s },
            _ => panic!("unknown op"),
         }
      }
      out
   }
}
''' % {"name": p.name, "body": body, "push": " ".join(push_arms), "dump": " ".join(dump_lines),
       "rt": rt, "prelude": p.prelude, "srcmod": srcmod, "ctor": ctor}


def crate_text(progs):
    mods = "\n".join(prog_module(p) for p in progs)
    disp = "\n".join('      "%s" => %s::exec(script),' % (p.name, p.name) for p in progs)
    lib = '''#![allow(clippy::all)]
pub mod vals;
%s
pub fn exec(prog: &str, script: &[String]) -> String {
   match prog {
%s
      _ => panic!("unknown program"),
   }
}
''' % (mods, disp)
    return lib


CARGO_TOML = '''[package]
name = "corpus"
version = "0.1.0"
edition = "2021"

[workspace]

[lib]
path = "src/lib.rs"

[[bin]]
name = "corpus-run"
path = "src/main.rs"

[dependencies]
ascent = { path = "%s/ascent", default-features = false }

[profile.dev]
debug = false
opt-level = 0
incremental = false

[lints.rust]
unexpected_cfgs = { level = "allow", check-cfg = ['cfg(ascent_verif)'] }
'''


def sh(cmd, cwd, env=None, timeout=1800):
    e = dict(os.environ)
    e["CARGO_NET_OFFLINE"] = "true"
    if env:
        e.update(env)
    t0 = time.time()
    p = subprocess.run(cmd, cwd=cwd, env=e, stdout=subprocess.PIPE, stderr=subprocess.PIPE, text=True, timeout=timeout)
    return p.returncode, p.stdout, p.stderr, time.time() - t0


def repo_macro_fingerprint():
    h = hashlib.sha256()
    for root in ("ascent", "ascent_base", "ascent_macro"):
        base = os.path.join(REPO, root)
        for d, _, fs in sorted(os.walk(base)):
            if "/target" in d:
                continue
            for f in sorted(fs):
                if f.endswith((".rs", ".toml")):
                    with open(os.path.join(d, f), "rb") as fh:
                        h.update(f.encode())
                        h.update(fh.read())
    return h.hexdigest()[:16]


class CorpusBuildError(Exception):
    def __init__(self, what, stderr):
        Exception.__init__(self, what + ":\n" + stderr[-3000:])
        self.what, self.stderr = what, stderr

    def first_error(self):
        m = re.search(r"(?m)^error.*(?:\n.*){0,6}", self.stderr)
        return (m.group(0) if m else self.stderr[-400:])[:600]


class Corpus:
    """a set of programs materialised as a crate under .cache/corpus-<tag>"""

    def __init__(self, tag, progs, need_native=True, hooks=True):
        self.tag, self.progs = tag, progs
        self.dir = os.path.join(CACHE, "corpus-" + tag)
        # cargo target dirs keyed by the content of /repo: artefacts of one state of the repository are never
        # reused for another (cargo's freshness test is mtime based)
        self.target = os.path.join(CACHE, "corpus-target-" + repo_macro_fingerprint())
        self.stats = {}
        self.dropped = {}
        self.hooks = hooks
        self.need_native = need_native

    def build(self):
        """serialised across processes: the cargo target dirs (and the built binary's name) are shared"""
        import fcntl
        os.makedirs(CACHE, exist_ok=True)
        with open(os.path.join(CACHE, "corpus-build.lock"), "w") as lk:
            fcntl.flock(lk, fcntl.LOCK_EX)
            try:
                return self._build()
            finally:
                fcntl.flock(lk, fcntl.LOCK_UN)

    def _build(self):
        """build; if some program no longer compiles (a well-formed program of the corpus that compiled on the
        unchanged tree), drop it, remember why, and build the rest so that the other programs are still decided"""
        self.dropped = {}
        for attempt in range(4):
            try:
                return self._build_once()
            except CorpusBuildError as e:
                bad = self._modules_of_errors(e.stderr)
                bad = [b for b in bad if b not in self.dropped]
                if not bad or attempt == 3:
                    raise RuntimeError(str(e))
                for b in bad:
                    self.dropped[b] = e.first_error()
                self.progs = [p for p in self.progs if p.name not in self.dropped]
                if not self.progs:
                    raise RuntimeError(str(e))

    def _modules_of_errors(self, stderr):
        lib = open(os.path.join(self.dir, "src", "lib.rs")).read().splitlines()
        starts = []
        for i, ln in enumerate(lib):
            m = re.match(r"^pub mod (\w+) \{", ln)
            if m:
                starts.append((i + 1, m.group(1)))
        bad = []
        for m in re.finditer(r"--> src/lib\.rs:(\d+):", stderr):
            line = int(m.group(1))
            name = None
            for st, nm in starts:
                if st <= line:
                    name = nm
            if name and name != "vals" and name not in bad:
                bad.append(name)
        return bad

    def _prune_targets(self):
        try:
            olds = sorted([x for x in os.listdir(CACHE) if x.startswith("corpus-target-") and not x.startswith(os.path.basename(self.target))],
                          key=lambda x: os.path.getmtime(os.path.join(CACHE, x)))
            for x in olds[:-4]:
                shutil.rmtree(os.path.join(CACHE, x), ignore_errors=True)
        except OSError:
            pass

    def _build_once(self):
        self._prune_targets()
        os.makedirs(os.path.join(self.dir, "src"), exist_ok=True)
        lib = crate_text(self.progs)
        rs2json_src = open(os.path.join(VERIF, "tools", "rs2json", "src", "main.rs")).read()
        key = hashlib.sha256((lib + repo_macro_fingerprint() + VALS_RS + MAIN_RS + rs2json_src).encode()).hexdigest()[:16]
        stamp = os.path.join(self.dir, "stamp.json")
        self.bin = os.path.join(self.dir, "corpus-run")
        self.json = os.path.join(self.dir, "expanded.json")
        if os.path.exists(stamp):
            try:
                st = json.load(open(stamp))
                if st.get("key") == key and os.path.exists(self.json) and (os.path.exists(self.bin) or not self.need_native):
                    self.stats = st.get("stats", {})
                    self.stats["cached"] = True
                    return
            except Exception:
                pass
        with open(os.path.join(self.dir, "Cargo.toml"), "w") as f:
            f.write(CARGO_TOML % REPO)
        lock = os.path.join(REPO, "Cargo.lock")
        if os.path.exists(lock):
            shutil.copy(lock, os.path.join(self.dir, "Cargo.lock"))
        with open(os.path.join(self.dir, "src", "lib.rs"), "w") as f:
            f.write(lib)
        with open(os.path.join(self.dir, "src", "vals.rs"), "w") as f:
            f.write(VALS_RS)
        with open(os.path.join(self.dir, "src", "main.rs"), "w") as f:
            f.write(MAIN_RS)
        rf = {"RUSTFLAGS": "--cfg ascent_verif"} if self.hooks else {}
        # 1. expansion by the real, compiled proc macro
        rc, out, err, t = sh(["cargo", "+nightly", "rustc", "--offline", "--lib", "--target-dir", self.target + "-nightly", "--",
                              "-Zunpretty=expanded"], self.dir, env=rf)
        if rc != 0:
            raise CorpusBuildError("corpus expansion failed", err)
        missing = [p.name for p in self.progs if ("pub mod %s {" % p.name) not in out]
        if missing:
            # cargo considered the crate fresh and printed nothing (or a truncated expansion): never use it
            raise RuntimeError("expansion output does not contain the modules %s (stale cargo artefacts?)" % missing[:5])
        exp = os.path.join(self.dir, "expanded.rs")
        with open(exp, "w") as f:
            f.write(out)
        self.stats["expand_s"] = round(t, 1)
        rc, out2, err2, t2 = sh([RS2JSON, exp, self.json], self.dir)
        if rc != 0:
            raise RuntimeError("rs2json failed: " + err2[-2000:])
        self.stats["rs2json_s"] = round(t2, 1)
        # 2. native runner (real hash tables)
        if self.need_native:
            rc, out3, err3, t3 = sh(["cargo", "build", "--offline", "--bin", "corpus-run", "--target-dir", self.target], self.dir, env=rf)
            if rc != 0:
                raise CorpusBuildError("corpus native build failed", err3)
            shutil.copy(os.path.join(self.target, "debug", "corpus-run"), self.bin)
            self.stats["native_build_s"] = round(t3, 1)
        with open(stamp, "w") as f:
            json.dump({"key": key, "stats": self.stats}, f)
        self.stats["cached"] = False

    def load_ast(self):
        with open(self.json) as f:
            return json.load(f)

    def run_native(self, jobs, timeout=300):
        """jobs: list of (prog_name, [script lines]) -> list of outputs (str) or 'PANIC'"""
        inp = []
        for name, script in jobs:
            inp.append("=== " + name)
            inp += script
        p = subprocess.run([self.bin], input="\n".join(inp) + "\n", stdout=subprocess.PIPE, stderr=subprocess.PIPE, text=True, timeout=timeout)
        outs = []
        cur = None
        for line in p.stdout.splitlines():
            if line.startswith("=== end"):
                outs.append("\n".join(cur))
                cur = None
            elif line.startswith("=== "):
                cur = []
            elif cur is not None:
                cur.append(line)
        if len(outs) != len(jobs):
            raise RuntimeError("corpus-run produced %d outputs for %d jobs: %s" % (len(outs), len(jobs), p.stderr[-2000:]))
        return outs


def rust_debug(v):
    """`{:?}` rendering of a value as Rust prints it (Dual prints its inner value)"""
    if isinstance(v, bool):
        return "true" if v else "false"
    if isinstance(v, int):
        return str(v)
    if isinstance(v, tuple) and len(v) == 3 and v[0] == "F64":
        from fractions import Fraction
        x = float(Fraction(v[1], v[2]))
        s = repr(x)
        return s
    if isinstance(v, TS):
        if v.name in ("Dual", "OrdLattice"):
            return rust_debug(v[1])
        if len(v) == 1:
            return v.name
        return "%s(%s)" % (v.name, ", ".join(rust_debug(f) for f in v.fields))
    if isinstance(v, tuple):
        if len(v) == 1:
            return "(%s,)" % rust_debug(v[0])
        return "(%s)" % ", ".join(rust_debug(x) for x in v)
    raise Unsupported("rust_debug %r" % (v,))


def parse_dump(out):
    """output of a script -> list of dumps; each dump: {rel: [row_debug_str,...]}, plus ret values"""
    dumps, rets = [], []
    cur = None
    for line in out.splitlines():
        if line == "--":
            cur = {}
            dumps.append(cur)
        elif line.startswith("ret\t"):
            rets.append(line.split("\t")[1] == "true")
        elif "\t" in line and cur is not None:
            rel, row = line.split("\t", 1)
            cur.setdefault(rel, []).append(row)
    return dumps, rets
