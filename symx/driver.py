"""Per-program symbolic check: run a script (default; set inputs; run; ...) through the interpreter on
the expanded code, build the oracle from the logical program, and let z3 decide the queries."""
import itertools, random, time, json
import z3
from .sym import *
from .values import *
from . import models as M
from .models import RelVec, LatVec, Struct, Duration
from .interp import Interp, Ctx, Env, Frame, deref
from . import lang as L


def find_module(ast, name):
    for it in ast["items"]:
        if it["k"] == "mod" and it["name"] == name:
            return it
    raise Unsupported("module %s not found in expansion" % name)


def column_domain(ty, D):
    """candidate values of an input column of Rust type `ty`"""
    ty = ty.replace(" ", "")
    ints = ("u8", "u16", "u32", "u64", "usize", "i8", "i16", "i32", "i64", "isize")
    if ty in ints:
        return list(range(D))
    if ty == "bool":
        return [False, True]
    if ty.startswith("Dual<") and ty[5:-1] in ints:
        return [TS("Dual", v) for v in range(1, D + 1)]
    if ty.startswith("Option<") and ty[7:-1] in ints:
        return [NONE] + [Some(v) for v in range(D - 1)]
    if ty.startswith("ConstPropagation<") or ty.startswith("ascent::lattice::constant_propagation::ConstPropagation<"):
        return [TS("Bottom"), TS("Constant", 0), TS("Constant", 1), TS("Top")]
    if ty.startswith("(") and ty.endswith(")"):
        raise Unsupported("tuple-typed input column " + ty)
    raise Unsupported("input column type " + ty)


class Inputs:
    """symbolic input database: for every input relation and candidate tuple a presence Bool
    (and a second Bool 'present twice' when duplicates are allowed)"""

    def __init__(self, prog, D, input_rels, dup=False, tag=""):
        self.prog, self.D, self.dup = prog, D, dup
        self.vars = {}    # (rel, tuple) -> Bool
        self.vars2 = {}   # (rel, tuple) -> Bool (second copy)
        self.lat = {}     # (rel, key) -> (exists Bool, {val: Bool})
        self.constraints = []
        self.rels = input_rels
        for rn in input_rels:
            r = prog.relmap[rn]
            doms = [column_domain(t, D) for t in r.types]
            if r.lattice:
                for key in itertools.product(*doms[:-1]):
                    ex = z3.Bool("in%s_%s_%s" % (tag, rn, rust_repr(tuple(key))))
                    vals = {v: z3.Bool("in%s_%s_%s=%s" % (tag, rn, rust_repr(tuple(key)), rust_repr(v))) for v in doms[-1]}
                    self.lat[(rn, tuple(key))] = (ex, vals)
                    # exactly one value
                    vs = list(vals.values())
                    self.constraints.append(z3.PbEq([(v, 1) for v in vs], 1))
            else:
                for t in itertools.product(*doms):
                    self.vars[(rn, t)] = z3.Bool("in%s_%s_%s" % (tag, rn, rust_repr(t)))
                    if dup:
                        v2 = z3.Bool("in2%s_%s_%s" % (tag, rn, rust_repr(t)))
                        self.vars2[(rn, t)] = v2
                        self.constraints.append(z3.Implies(v2, self.vars[(rn, t)]))

    def fill(self, obj, ctx):
        """push the symbolic inputs into the program object's relation vectors"""
        for (rn, t), b in self.vars.items():
            obj.fields[rn].push(t, b, ctx)
            if self.dup:
                obj.fields[rn].push(t, self.vars2[(rn, t)], ctx)
        for (rn, key), (ex, vals) in self.lat.items():
            vec = obj.fields[rn]
            vec.rows[(key, 0)] = [ex, [(c, v) for v, c in vals.items()]]

    def ref_inputs(self):
        """the same inputs for the reference evaluator"""
        d = {}
        for (rn, t), b in self.vars.items():
            d.setdefault(rn, {})[t] = b
        for (rn, key), (ex, vals) in self.lat.items():
            d.setdefault(rn, {})[key] = (ex, [(c, v) for v, c in vals.items()])
        return d

    def concrete(self, model):
        """z3 model -> concrete database {rel: [tuples]} (with duplicates)"""
        db = {}
        for (rn, t), b in self.vars.items():
            if z3.is_true(model.eval(b, model_completion=True)):
                db.setdefault(rn, []).append(t)
                if self.dup and z3.is_true(model.eval(self.vars2[(rn, t)], model_completion=True)):
                    db[rn].append(t)
        for (rn, key), (ex, vals) in self.lat.items():
            if z3.is_true(model.eval(ex, model_completion=True)):
                for v, c in vals.items():
                    if z3.is_true(model.eval(c, model_completion=True)):
                        db.setdefault(rn, []).append(tuple(key) + (v,))
        return db

    def pin(self, db):
        """constraints fixing the inputs to a concrete database"""
        cs = []
        for (rn, t), b in self.vars.items():
            n = db.get(rn, []).count(t)
            cs.append(b if n >= 1 else z3.Not(b))
            if self.dup:
                cs.append(self.vars2[(rn, t)] if n >= 2 else z3.Not(self.vars2[(rn, t)]))
        for (rn, key), (ex, vals) in self.lat.items():
            rows = [t for t in db.get(rn, []) if tuple(t[:-1]) == key]
            cs.append(ex if rows else z3.Not(ex))
            for v, c in vals.items():
                if rows:
                    cs.append(c if rows[0][-1] == v else z3.Not(c))
        return cs

    def random_db(self, rng, density=0.4):
        db = {}
        for (rn, t) in self.vars:
            if rng.random() < density:
                db.setdefault(rn, []).append(t)
                if self.dup and rng.random() < 0.2:
                    db[rn].append(t)
        for (rn, key), (ex, vals) in self.lat.items():
            if rng.random() < density:
                db.setdefault(rn, []).append(tuple(key) + (rng.choice(list(vals)),))
        return db


class Exec:
    """one symbolic execution of a script over the expanded code of a program"""

    def __init__(self, ast_mod, prog, K=6, clock="none", struct_name="Prog"):
        self.prog = prog
        self.ctx = Ctx(K=K, clock=clock)
        self.I = Interp(self.ctx)
        self.struct_name = struct_name
        self.rets = []  # alts of run_timeout return values, per call
        for it in ast_mod["items"]:
            if it["k"] == "struct":
                self.ctx.structs[it["name"]] = it
            elif it["k"] == "impl":
                sname = it["self_ty"]["segs"][-1]["id"] if it["self_ty"]["k"] == "tpath" else None
                for f in it["items"]:
                    if f["k"] == "fn":
                        self.ctx.methods[(sname, f["sig"]["name"])] = f
        if struct_name not in self.ctx.structs:
            raise Unsupported("struct %s not found in expansion" % struct_name)

    def default(self):
        fn = self.ctx.methods.get((self.struct_name, "default"))
        if fn is None:
            raise Unsupported("no Default impl")
        alts = self.I.call_user_fn(fn, [], True)
        obj = deref(alts[0][1])
        # relation vectors: typed models
        for rn, r in self.prog.relmap.items():
            if r.ds:
                continue
            obj.fields[rn] = LatVec(rn) if r.lattice else RelVec(rn)
            self.ctx.vecs.append(obj.fields[rn])
        self.obj = obj
        return obj

    def prune(self):
        for v in self.obj.fields.values():
            M.prune_twice(v, self.ctx)
        self.ctx.compact([v for v in self.obj.fields.values() if hasattr(v, "compact")])

    def run(self):
        self.prune()
        self.I.call_method(self.obj, "run", [], True, Frame(), None)

    def run_timeout(self):
        self.prune()
        alts = self.I.call_method(self.obj, "run_timeout", [Duration("finite")], True, Frame(), None)
        self.ctx.call_idx += 1
        self.rets.append(alts)
        return alts

    def present(self, rel, t):
        return self.obj.fields[rel].present(t)

    def observed(self):
        """rel -> {tuple: (present, twice)} ; lattice: rel -> {(key): [(exists&cond, val)]} plus row counts"""
        out = {}
        for rn, r in self.prog.relmap.items():
            if r.ds:
                continue
            vec = self.obj.fields[rn]
            if r.lattice:
                d = {}
                for (key, slot), (ex, valts) in vec.rows.items():
                    d.setdefault(key, []).append((slot, ex, valts))
                out[rn] = d
            else:
                out[rn] = {t: (c[0], c[1]) for t, c in vec.d.items()}
        return out


def solver_changed_check(solver_factory):
    def chk(olds, news):
        diffs = [Xor_(a, b) for a, b in zip(olds, news)]
        diffs = [d for d in diffs if not (is_const(d) and not d)]
        if not diffs:
            return False
        if any(is_const(d) and d for d in diffs):
            return True
        s = solver_factory()
        s.add(z3.Or(*[z(d) for d in diffs]))
        return s.check() != z3.unsat
    return chk
