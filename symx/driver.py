"""Per-program symbolic check: run a script (default; set inputs; run; ...) through the interpreter on
the expanded code, build the oracle from the logical program, and let z3 decide the queries."""
import itertools, random, time, json
from .sym import *
from .values import *
from . import models as M
from .models import RelVec, LatVec, Struct, Duration
from .interp import Interp, Ctx, Env, Frame, deref
from . import lang as L


def find_module(ast, name):
    for it in ast["items"]:
        if it["k"] == "mod" and it["name"] == name:
            return it
    raise Unsupported("module %s not found in expansion" % name)


def column_domain(ty, D, prog=None):
    """candidate values of an input column of Rust type `ty`"""
    ty = ty.replace(" ", "")
    if prog is not None and getattr(prog, "type_params", None):
        ty = prog.type_params.get(ty, ty)
    if prog is not None and getattr(prog, "domain", None) and ty in ("u8", "u16", "u32", "u64", "usize", "i8", "i16", "i32", "i64", "isize"):
        return list(prog.domain)[:D]
    ints = ("u8", "u16", "u32", "u64", "usize", "i8", "i16", "i32", "i64", "isize")
    if ty in ints:
        return list(range(D))
    if ty == "bool":
        return [False, True]
    if ty.startswith("Dual<") and ty[5:-1] in ints:
        return [TS("Dual", v) for v in range(1, D + 1)]
    if ty.startswith("Option<") and ty[7:-1] in ints:
        return [NONE] + [Some(v) for v in range(D - 1)]
    if ty.startswith("ConstPropagation<") or ty.startswith("ascent::lattice::constant_propagation::ConstPropagation<"):
        return [TS("Bottom"), TS("Constant", 0), TS("Constant", 1), TS("Top")]
    if ty.startswith("(") and ty.endswith(")"):
        # tuple-typed column: product of the component domains (split at top-level commas)
        inner, parts, depth, cur = ty[1:-1], [], 0, ""
        for ch in inner:
            if ch in "(<":
                depth += 1
            elif ch in ")>":
                depth -= 1
            if ch == "," and depth == 0:
                parts.append(cur)
                cur = ""
            else:
                cur += ch
        if cur:
            parts.append(cur)
        return [tuple(t) for t in itertools.product(*[column_domain(p_, min(D, 2), prog) for p_ in parts])]
    raise Unsupported("input column type " + ty)


class Inputs:
    """symbolic input database: for every input relation and candidate tuple a presence variable
    (and, when duplicates are allowed, a second variable: the tuple is supplied twice iff both hold).
    Lattice inputs: per key an 'exists' variable and a binary-encoded choice of the value, so that
    'exactly one value' holds structurally (no side constraints are needed anywhere)."""

    def __init__(self, prog, D, input_rels, dup=False, tag=""):
        self.prog, self.D, self.dup = prog, D, dup
        self.vars = {}    # (rel, tuple) -> B   (present at least once)
        self.vars2 = {}   # (rel, tuple) -> B   (present twice)
        self.lat = {}     # (rel, key) -> (exists B, {val: B})
        self.names = {}   # bookkeeping for pinning: (rel, tuple) -> (name1, name2) ; (rel,key) -> (exname, [bit names], [vals])
        self.rels = input_rels
        for rn in input_rels:
            r = prog.relmap[rn]
            doms = [column_domain(t, D, prog) for t in r.types]
            if r.lattice:
                for key in itertools.product(*doms[:-1]):
                    base = "in%s_%s_%s" % (tag, rn, rust_repr(tuple(key)))
                    ex = BVar(base)
                    vals = doms[-1]
                    nb = max(1, (len(vals) - 1).bit_length())
                    bits = [BVar("%s.v%d" % (base, i)) for i in range(nb)]
                    conds = {}
                    for i, v in enumerate(vals):
                        codes = [i] if i < len(vals) - 1 else list(range(len(vals) - 1, 2 ** nb))
                        cs = []
                        for code in codes:
                            cs.append(AndL([bits[b] if (code >> b) & 1 else Not_(bits[b]) for b in range(nb)]))
                        conds[v] = OrL(cs)
                    self.lat[(rn, tuple(key))] = (ex, conds)
                    self.names[(rn, tuple(key))] = (base, ["%s.v%d" % (base, i) for i in range(nb)], vals)
            else:
                for t in itertools.product(*doms):
                    n1 = "in%s_%s_%s" % (tag, rn, rust_repr(t))
                    a = BVar(n1)
                    self.vars[(rn, t)] = a
                    n2 = None
                    if dup:
                        n2 = "in2%s_%s_%s" % (tag, rn, rust_repr(t))
                        self.vars2[(rn, t)] = And_(a, BVar(n2))
                    self.names[(rn, t)] = (n1, n2)

    def nvars(self):
        return len(self.vars) + len(self.vars2) + sum(1 + len(self.names[k][1]) for k in self.lat)

    def fill(self, obj, ctx):
        """push the symbolic inputs into the program object's relation vectors"""
        for (rn, t), b in self.vars.items():
            obj.fields[rn].push(t, b, ctx)
            if self.dup:
                obj.fields[rn].push(t, self.vars2[(rn, t)], ctx)
        for (rn, key), (ex, vals) in self.lat.items():
            vec = obj.fields[rn]
            vec.rows[(key, 0)] = [ex, [(c, v) for v, c in vals.items()]]

    def ref_inputs(self):
        """the same inputs for the reference evaluator"""
        d = {}
        for (rn, t), b in self.vars.items():
            d.setdefault(rn, {})[t] = b
        for (rn, key), (ex, vals) in self.lat.items():
            d.setdefault(rn, {})[key] = (ex, [(c, v) for v, c in vals.items()])
        return d

    def concrete(self, asg):
        """assignment {var name: bool} -> concrete database {rel: [tuples]} (with duplicates)"""
        db = {}
        for (rn, t), b in self.vars.items():
            if eval_b(b, asg):
                db.setdefault(rn, []).append(t)
                if self.dup and eval_b(self.vars2[(rn, t)], asg):
                    db[rn].append(t)
        for (rn, key), (ex, vals) in self.lat.items():
            if eval_b(ex, asg):
                for v, c in vals.items():
                    if eval_b(c, asg):
                        db.setdefault(rn, []).append(tuple(key) + (v,))
        return db

    def pin(self, db):
        """assignment fixing the inputs to a concrete database"""
        asg = {}
        for (rn, t), (n1, n2) in [(k, v) for k, v in self.names.items() if k in self.vars]:
            n = db.get(rn, []).count(t)
            asg[n1] = n >= 1
            if n2:
                asg[n2] = n >= 2
        for (rn, key) in self.lat:
            base, bitnames, vals = self.names[(rn, key)]
            rows = [t for t in db.get(rn, []) if tuple(t[:-1]) == key]
            asg[base] = bool(rows)
            code = vals.index(rows[0][-1]) if rows else 0
            for b, nm in enumerate(bitnames):
                asg[nm] = bool((code >> b) & 1)
        return asg

    def random_db(self, rng, density=0.4):
        db = {}
        for (rn, t) in self.vars:
            if rng.random() < density:
                db.setdefault(rn, []).append(t)
                if self.dup and rng.random() < 0.2:
                    db[rn].append(t)
        for (rn, key), (ex, vals) in self.lat.items():
            if rng.random() < density:
                db.setdefault(rn, []).append(tuple(key) + (rng.choice(list(vals)),))
        return db


class Exec:
    """one symbolic execution of a script over the expanded code of a program"""

    def __init__(self, ast_mod, prog, K=6, clock="none", struct_name="Prog"):
        self.prog = prog
        self.ctx = Ctx(K=K, clock=clock)
        self.I = Interp(self.ctx)
        self.struct_name = struct_name
        self.rets = []  # alts of run_timeout return values, per call
        for it in ast_mod["items"]:
            if it["k"] == "struct":
                self.ctx.structs[it["name"]] = it
            elif it["k"] == "impl":
                sname = it["self_ty"]["segs"][-1]["id"] if it["self_ty"]["k"] == "tpath" else None
                for f in it["items"]:
                    if f["k"] == "fn":
                        self.ctx.methods[(sname, f["sig"]["name"])] = f
        self.ctx.lattice_rels = {rn for rn, r in prog.relmap.items() if r.lattice}
        self.run_fn = None
        for it in ast_mod["items"]:
            if it["k"] == "fn" and it["sig"]["name"] == "run_prog":
                self.run_fn = it
        if struct_name not in self.ctx.structs and self.run_fn is None:
            raise Unsupported("struct %s not found in expansion" % struct_name)

    def default(self):
        if self.run_fn is not None:
            # ascent_run!: the program value is created inside the block; inputs are the captured locals
            rels = [rn for rn, r in self.prog.relmap.items() if not r.ds]
            self.obj = Struct("captured", {rn: (LatVec(rn) if self.prog.relmap[rn].lattice else RelVec(rn)) for rn in rels})
            return self.obj
        fn = self.ctx.methods.get((self.struct_name, "default"))
        if fn is None:
            raise Unsupported("no Default impl")
        alts = self.I.call_user_fn(fn, [], True)
        obj = deref(alts[0][1])
        # relation vectors: typed models
        for rn, r in self.prog.relmap.items():
            if r.ds:
                continue
            want = LatVec if r.lattice else RelVec
            if not isinstance(obj.fields.get(rn), want):
                obj.fields[rn] = want(rn)   # (initialised relations keep what the generated Default put there)
            self.ctx.vecs.append(obj.fields[rn])
        self.obj = obj
        return obj

    def prune(self):
        for v in self.obj.fields.values():
            M.prune_twice(v, self.ctx)
        self.ctx.compact([v for v in self.obj.fields.values() if hasattr(v, "compact")])

    def run(self):
        if self.run_fn is not None:
            params = [p for p in self.run_fn["sig"]["params"] if p["k"] == "param"]
            args = [self.obj.fields[p["pat"]["id"][:-3]] for p in params]   # parameter `<rel>_in`
            alts = self.I.call_user_fn(self.run_fn, args, True)
            res = deref(alts[0][1])
            rels = [rn for rn, r in self.prog.relmap.items() if not r.ds]
            self.obj = Struct("result", dict(zip(rels, res)))
            return
        self.prune()
        self.I.call_method(self.obj, "run", [], True, Frame(), None)

    def run_timeout(self):
        self.prune()
        alts = self.I.call_method(self.obj, "run_timeout", [Duration("finite")], True, Frame(), None)
        self.ctx.call_idx += 1
        # a symbolic return value is split into the two concrete outcomes
        norm = []
        for c, v in alts:
            v = deref(v)
            if isinstance(v, bool):
                norm.append((c, v))
            elif isinstance(v, Bd):
                norm.append((And_(c, v), True))
                norm.append((And_(c, Not_(v)), False))
            else:
                raise Unsupported("run_timeout returned %r" % (v,))
        alts = [(c, v) for c, v in norm if c is not False]
        self.rets.append(alts)
        return alts

    def present(self, rel, t):
        return self.obj.fields[rel].present(t)

    def observed(self):
        """rel -> {tuple: (present, twice)} ; lattice: rel -> {(key): [(exists&cond, val)]} plus row counts"""
        out = {}
        for rn, r in self.prog.relmap.items():
            if r.ds:
                continue
            vec = self.obj.fields[rn]
            if r.lattice:
                d = {}
                for (key, slot), (ex, valts) in vec.rows.items():
                    d.setdefault(key, []).append((slot, ex, valts))
                out[rn] = d
            else:
                out[rn] = {t: (c[0], c[1], list(c)) for t, c in vec.d.items()}
        return out


def changed_check(olds, news):
    """canonical conditions: a naive round changed something iff some condition differs"""
    return any(a != b for a, b in zip(olds, news))
