"""Corpus: curated programs per property + a seeded random generator over the rule language.
Every program is a lang.Program (logical form); the surface text is printed from it."""
import random
from .lang import *

I = "i32"


def v(*names):
    return [V(n) for n in names]


x, y, z_, w, u, t, a, b, c, n, k = v("x", "y", "z", "w", "u", "t", "a", "b", "c", "n", "k")


def R(name, *types, **kw):
    return Rel(name, list(types), **kw)


def rule(head, *body):
    heads = head if isinstance(head, list) else [head]
    return Rule(heads, list(body))


def H(rel, *args):
    return Head(rel, list(args))


def Cl(rel, *args):
    return Clause(rel, list(args))


_ = Wild()


# ------------------------------------------------------------------------------------ C01
def c01_curated():
    P = []
    P.append(Program("tc", [R("edge", I, I), R("path", I, I)], [
        rule(H("path", x, y), Cl("edge", x, y)),
        rule(H("path", x, z_), Cl("path", x, y), Cl("path", y, z_))]))
    P.append(Program("tc_linear", [R("edge", I, I), R("path", I, I)], [
        rule(H("path", x, y), Cl("edge", x, y)),
        rule(H("path", x, z_), Cl("edge", x, y), Cl("path", y, z_))]))
    P.append(Program("tc_reverse", [R("edge", I, I), R("path", I, I)], [
        rule(H("path", x, y), Cl("edge", x, y)),
        rule(H("path", x, z_), Cl("path", y, z_), Cl("edge", x, y))]))
    P.append(Program("same_gen", [R("par", I, I), R("sg", I, I)], [
        rule(H("sg", x, y), Cl("par", x, z_), Cl("par", y, z_)),
        rule(H("sg", x, y), Cl("par", x, a), Cl("sg", a, b), Cl("par", y, b))]))
    P.append(Program("mutual2", [R("e", I, I), R("odd", I, I), R("even", I, I)], [
        rule(H("odd", x, y), Cl("e", x, y)),
        rule(H("even", x, z_), Cl("odd", x, y), Cl("e", y, z_)),
        rule(H("odd", x, z_), Cl("even", x, y), Cl("e", y, z_))]))
    P.append(Program("mutual3", [R("s", I), R("p", I), R("q", I), R("r", I), R("nx", I, I)], [
        rule(H("p", x), Cl("s", x)),
        rule(H("q", y), Cl("p", x), Cl("nx", x, y)),
        rule(H("r", y), Cl("q", x), Cl("nx", x, y)),
        rule(H("p", y), Cl("r", x), Cl("nx", x, y))]))
    P.append(Program("three_dyn", [R("e", I, I), R("p", I, I)], [
        rule(H("p", x, y), Cl("e", x, y)),
        rule(H("p", x, w), Cl("p", x, y), Cl("p", y, z_), Cl("p", z_, w))]))
    P.append(Program("join_cond2", [R("e", I, I), R("f", I, I), R("g", I, I)], [
        rule(H("g", x, z_), Cl("e", x, y), Cl("f", y, z_), If(Bin("!=", x, z_))),
        rule(H("g", x, z_), Cl("g", x, y), Cl("g", y, z_), If(Bin("<", x, z_)))]))
    P.append(Program("consts_repeats", [R("e", I, I), R("f", I, I, I), R("g", I), R("h", I, I)], [
        rule(H("g", x), Cl("e", x, x)),
        rule(H("g", x), Cl("e", C(1), x)),
        rule(H("h", x, y), Cl("e", x, y), Cl("f", y, y, x)),
        rule(H("h", x, C(2)), Cl("f", x, C(0), _), Cl("e", _, x)),
        rule(H("h", y, x), Cl("h", x, y), Cl("e", y, Bin("+", x, C(0))))]))
    P.append(Program("generators", [R("s", I), R("r", I, I), R("q", I, I)], [
        rule(H("r", x, y), For(PV("x"), Rng(C(0), C(3))), Cl("s", x), Let(PV("y"), Bin("%", Bin("+", x, C(1)), C(3)))),
        rule(H("q", x, y), Cl("r", x, z_), For(PV("y"), Rng(C(0), z_)), If(Bin("!=", x, y))),
        rule(H("q", y, x), Cl("q", x, y), Cl("s", y))]))
    P.append(Program("facts_multihead", [R("a", I), R("b", I, I), R("c", I)], [
        rule(H("a", C(1))),
        rule([H("b", C(0), C(1)), H("b", C(1), C(2))]),
        rule([H("c", x), H("a", y)], Cl("b", x, y)),
        rule(H("b", x, x), Cl("a", x), Cl("c", x))]))
    P.append(Program("empty_rel", [R("e", I, I), R("never", I, I), R("p", I, I), R("q", I, I)], [
        rule(H("p", x, y), Cl("e", x, y)),
        rule(H("p", x, z_), Cl("p", x, y), Cl("never", y, z_)),
        rule(H("q", x, z_), Cl("never", x, y), Cl("p", y, z_)),
        rule(H("q", x, y), Cl("p", x, y), Cl("p", y, x))]))
    P.append(Program("two_strata", [R("e", I, I), R("p", I, I), R("q", I, I), R("top", I)], [
        rule(H("p", x, y), Cl("e", x, y)),
        rule(H("p", x, z_), Cl("p", x, y), Cl("e", y, z_)),
        rule(H("q", x, y), Cl("p", x, y), Cl("p", y, x)),
        rule(H("q", x, z_), Cl("q", x, y), Cl("p", y, z_)),
        rule(H("top", x), Cl("q", x, _), Cl("p", _, x))]))
    P.append(Program("iflet_let", [R("e", I, I), R("o", "Option<i32>"), R("r", I, I)], [
        rule(H("r", x, y), Cl("o", Pat(PC("Some", PV("x")))), Cl("e", x, y)),
        rule(H("r", y, zz()), Cl("r", x, y), Let(PV("zz"), Bin("%", Bin("+", y, C(1)), C(3))), If(Bin("!=", zz(), x))),
        rule(H("o", Ctor("Some", y)), Cl("r", x, y), If(Bin("==", x, C(0))))]))
    P.append(Program("arity3", [R("t", I, I, I), R("s", I, I), R("u", I, I, I)], [
        rule(H("u", x, y, z_), Cl("t", x, y, z_)),
        rule(H("u", x, z_, y), Cl("u", x, y, z_), Cl("s", y, z_)),
        rule(H("s", x, z_), Cl("u", x, _, z_), Cl("s", z_, x))]))
    return P


def zz():
    return V("zz")


# ------------------------------------------------------------------------------------ random programs
class RandGen:
    """well-formed by construction: grounded heads, no shadowing, positive programs"""

    def __init__(self, seed, max_arity=2, max_body=2):
        self.rng = random.Random(seed)
        self.max_arity, self.max_body = max_arity, max_body

    def program(self, name, nrel=None, nrule=None):
        rng = self.rng
        nrel = nrel or rng.randint(2, 4)
        rels = []
        for i in range(nrel):
            ar = min(self.max_arity, rng.choice([1, 2, 2, 2, 3])) if i > 0 else 2
            rels.append(R("r%d" % i, *([I] * ar)))
        rules = []
        nrule = nrule or rng.randint(2, 5)
        for _i in range(nrule):
            rules.append(self.rule(rels))
        return Program(name, rels, rules)

    def rule(self, rels):
        rng = self.rng
        nb = min(self.max_body, rng.choice([1, 2, 2, 3]))
        vars_pool = ["x", "y", "z", "w", "u"]
        bound = []
        body = []
        for _i in range(nb):
            r = rng.choice(rels)
            args = []
            for _j in range(r.arity):
                p = rng.random()
                if bound and p < 0.35:
                    args.append(V(rng.choice(bound)))
                elif p < 0.42:
                    args.append(C(rng.randint(0, 2)))
                elif p < 0.52:
                    args.append(Wild())
                elif bound and p < 0.58:
                    args.append(Bin("%", Bin("+", V(rng.choice(bound)), C(1)), C(3)))
                else:
                    free = [q for q in vars_pool if q not in bound]
                    if free:
                        nm = rng.choice(free[:2])
                        # a fresh variable used twice inside one clause is a repeated variable: allowed
                        args.append(V(nm))
                        newly = nm
                    else:
                        args.append(V(rng.choice(bound)))
                        newly = None
            for a_ in args:
                if isinstance(a_, V) and a_.n not in bound:
                    bound.append(a_.n)
            body.append(Clause(r.name, args))
            if bound and rng.random() < 0.25:
                va = V(rng.choice(bound))
                others = [q for q in bound if q != va.n]
                vb = V(rng.choice(others)) if (others and rng.random() < 0.6) else C(rng.randint(0, 2))
                body.append(If(Bin(rng.choice(["!=", "<", "<=", "=="]), va, vb)))
            elif bound and rng.random() < 0.12:
                nm = "l%d" % len(bound)
                body.append(Let(PV(nm), Bin("%", Bin("+", V(rng.choice(bound)), C(rng.randint(1, 2))), C(3))))
                bound.append(nm)
        hr = rng.choice(rels)
        hargs = []
        for _j in range(hr.arity):
            if bound and rng.random() < 0.85:
                hargs.append(V(rng.choice(bound)))
            else:
                hargs.append(C(rng.randint(0, 2)))
        return Rule([Head(hr.name, hargs)], body)


def random_programs(seed, count, prefix="rnd", max_arity=2, max_body=2):
    g = RandGen(seed, max_arity, max_body)
    return [g.program("%s%d_%d" % (prefix, seed % 1000, i)) for i in range(count)]


# ------------------------------------------------------------------------------------ C03 (lattices)
DI = "Dual<i32>"
CP_PRELUDE = "use ascent::lattice::constant_propagation::ConstPropagation::{self, *};"


def c03_curated():
    P = []
    d, l, v_ = V("d"), V("l"), V("v")
    P.append(Program("shortest_path", [R("edge", I, I, I), R("dist", I, I, DI, lattice=True)], [
        rule(H("dist", x, y, Ctor("Dual", w)), Cl("edge", x, y, w)),
        rule(H("dist", x, z_, Ctor("Dual", Bin("+", w, l))), Cl("dist", x, y, Pat(PC("Dual", PV("w")))), Cl("edge", y, z_, l))]))
    P.append(Program("longest_dag", [R("edge", I, I, I), R("longest", I, I, I, lattice=True)], [
        rule(H("longest", x, y, w), Cl("edge", x, y, w), If(Bin("<", x, y))),
        rule(H("longest", x, z_, Bin("+", w, l)), Cl("longest", x, y, w), Cl("edge", y, z_, l), If(Bin("<", y, z_)))]))
    P.append(Program("option_lat", [R("e", I, I), R("o", I, "Option<i32>", lattice=True)], [
        rule(H("o", x, Ctor("Some", y)), Cl("e", x, y)),
        rule(H("o", x, v_), Cl("o", y, v_), Cl("e", x, y))]))
    P.append(Program("constprop", [R("assign", I, I), R("copy", I, I), R("val", I, "ConstPropagation<i32>", lattice=True), R("is_const", I, I)], [
        rule(H("val", x, Ctor("Constant", c)), Cl("assign", x, c)),
        rule(H("val", x, v_), Cl("copy", x, y), Cl("val", y, v_)),
        rule(H("is_const", x, c), Cl("val", x, Pat(PC("Constant", PV("c")))))], prelude=CP_PRELUDE))
    P.append(Program("lat_upward", [R("edge", I, I, I), R("dist", I, I, DI, lattice=True), R("near", I, I)], [
        rule(H("dist", x, y, Ctor("Dual", w)), Cl("edge", x, y, w)),
        rule(H("dist", x, z_, Ctor("Dual", Bin("+", w, l))), Cl("dist", x, y, Pat(PC("Dual", PV("w")))), Cl("edge", y, z_, l)),
        rule(H("near", x, y), Cl("dist", x, y, Pat(PC("Dual", PV("d")))), If(Bin("<=", d, C(1)))),
        rule(H("dist", x, y, Ctor("Dual", C(0))), Cl("near", y, x))]))
    # a lattice keyed on two columns read through a partial-key index (LatticeIndexType on column 1)
    P.append(Program("lat_partial_key", [R("s", I, I, I), R("m", I, I, I, lattice=True), R("reach", I), R("q", I, I)], [
        rule(H("m", x, y, w), Cl("s", x, y, w)),
        rule(H("m", x, y, w), Cl("m", z_, y, w), Cl("q", x, z_)),
        rule(H("reach", y), Cl("q", _, y), Cl("m", _, y, v_), If(Bin(">=", v_, C(1))))]))
    P.append(Program("lat_mutual", [R("e", I, I), R("s", I, I), R("la", I, I, lattice=True), R("lb", I, I, lattice=True)], [
        rule(H("la", x, y), Cl("s", x, y)),
        rule(H("lb", x, v_), Cl("la", x, v_)),
        rule(H("la", x, Call("min", Bin("+", v_, C(1)), C(3))), Cl("lb", y, v_), Cl("e", y, x))]))
    P.append(Program("lat_nokey", [R("s", I), R("mx", I, lattice=True), R("mn", DI, lattice=True), R("both", I, I)], [
        rule(H("mx", x), Cl("s", x)),
        rule(H("mn", Ctor("Dual", x)), Cl("s", x)),
        rule(H("both", a, b), Cl("mx", a), Cl("mn", Pat(PC("Dual", PV("b")))))]))
    return P


# ------------------------------------------------------------------------------------ C04 (negation / aggregation)
def c04_curated():
    P = []
    m_, s_ = V("m"), V("s")
    P.append(Program("agg_count_key", [R("e", I, I), R("deg", I, "usize")], [
        rule(H("deg", x, n), Cl("e", x, _), Agg(PV("n"), "count", [], "e", [x, _]))]))
    P.append(Program("agg_sum_min_max", [R("e", I, I), R("k", I), R("sm", I, I), R("mn", I, I), R("mx", I, I)], [
        rule(H("sm", x, s_), Cl("k", x), Agg(PV("s"), "sum", ["y"], "e", [x, y])),
        rule(H("mn", x, m_), Cl("k", x), Agg(PV("m"), "min", ["y"], "e", [x, y])),
        rule(H("mx", x, m_), Cl("k", x), Agg(PV("m"), "max", ["y"], "e", [y, x]))]))
    P.append(Program("agg_global", [R("e", I, I), R("total", "usize"), R("top", I), R("has_none", I)], [
        rule(H("total", n), Agg(PV("n"), "count", [], "e", [_, _])),
        rule(H("top", m_), Agg(PV("m"), "max", ["y"], "e", [_, y])),
        rule(H("has_none", C(1)), Neg("e", [_, _]))]))
    P.append(Program("neg_basic", [R("e", I, I), R("node", I), R("sink", I), R("noself", I), R("iso", I)], [
        rule(H("sink", x), Cl("node", x), Neg("e", [x, _])),
        rule(H("noself", x), Cl("node", x), Neg("e", [x, x])),
        rule(H("iso", x), Cl("sink", x), Neg("e", [_, x]))]))
    P.append(Program("agg_over_recursive", [R("e", I, I), R("p", I, I), R("reach_cnt", I, "usize"), R("unreach", I, I)], [
        rule(H("p", x, y), Cl("e", x, y)),
        rule(H("p", x, z_), Cl("p", x, y), Cl("e", y, z_)),
        rule(H("reach_cnt", x, n), Cl("e", x, _), Agg(PV("n"), "count", [], "p", [x, _])),
        rule(H("unreach", x, y), Cl("e", x, _), Cl("e", _, y), Neg("p", [x, y]))]))
    P.append(Program("agg_chain", [R("e", I, I), R("deg", I, "usize"), R("maxdeg", "usize"), R("hub", I)], [
        rule(H("deg", x, n), Cl("e", x, _), Agg(PV("n"), "count", [], "e", [x, _])),
        rule(H("maxdeg", m_), Agg(PV("m"), "max", ["d"], "deg", [_, V("d")])),
        rule(H("hub", x), Cl("deg", x, V("d")), Cl("maxdeg", V("d")))]))
    P.append(Program("agg_over_lattice", [R("edge", I, I, I), R("dist", I, I, DI, lattice=True), R("cnt", I, "usize"), R("far", I, DI)], [
        rule(H("dist", x, y, Ctor("Dual", w)), Cl("edge", x, y, w)),
        rule(H("dist", x, z_, Ctor("Dual", Bin("+", w, V("l")))), Cl("dist", x, y, Pat(PC("Dual", PV("w")))), Cl("edge", y, z_, V("l"))),
        rule(H("cnt", x, n), Cl("edge", x, _, _), Agg(PV("n"), "count", [], "dist", [x, _, _])),
        rule(H("far", x, m_), Cl("edge", x, _, _), Agg(PV("m"), "max", ["d"], "dist", [x, _, V("d")]))]))
    P.append(Program("agg_lattice_value_bound", [R("s", I, I), R("q", I), R("m", I, I, lattice=True), R("cnt", I, "usize"), R("nohit", I)], [
        rule(H("m", x, y), Cl("s", x, y)),
        rule(H("cnt", V("v"), n), Cl("q", V("v")), Agg(PV("n"), "count", [], "m", [_, V("v")])),
        rule(H("nohit", V("v")), Cl("q", V("v")), Neg("m", [_, V("v")]))]))
    P.append(Program("agg_mean", [R("e", I, I), R("avg", I, I)], [
        rule(H("avg", x, Bin("*", m_, C(1))), Cl("e", x, _), Agg(PV("m"), "sum", ["y"], "e", [x, y]))]))
    P.append(Program("agg_bound_expr", [R("e", I, I), R("k", I), R("r", I, "usize")], [
        rule(H("r", x, n), Cl("k", x), Agg(PV("n"), "count", [], "e", [Bin("%", Bin("+", x, C(1)), C(3)), _])),
        rule(H("r", x, n), Cl("k", x), Agg(PV("n"), "count", [], "e", [x, C(1)]))]))
    return P
