"""Corpus: curated programs per property + a seeded random generator over the rule language.
Every program is a lang.Program (logical form); the surface text is printed from it."""
import random
from .lang import *
from .lang import _item_vars

I = "i32"


def v(*names):
    return [V(n) for n in names]


x, y, z_, w, u, t, a, b, c, n, k = v("x", "y", "z", "w", "u", "t", "a", "b", "c", "n", "k")


def R(name, *types, **kw):
    return Rel(name, list(types), **kw)


def rule(head, *body):
    heads = head if isinstance(head, list) else [head]
    return Rule(heads, list(body))


def H(rel, *args):
    return Head(rel, list(args))


def Cl(rel, *args):
    return Clause(rel, list(args))


_ = Wild()


# ------------------------------------------------------------------------------------ C01
def c01_curated():
    P = []
    P.append(Program("tc", [R("edge", I, I), R("path", I, I)], [
        rule(H("path", x, y), Cl("edge", x, y)),
        rule(H("path", x, z_), Cl("path", x, y), Cl("path", y, z_))]))
    P.append(Program("tc_linear", [R("edge", I, I), R("path", I, I)], [
        rule(H("path", x, y), Cl("edge", x, y)),
        rule(H("path", x, z_), Cl("edge", x, y), Cl("path", y, z_))]))
    P.append(Program("tc_reverse", [R("edge", I, I), R("path", I, I)], [
        rule(H("path", x, y), Cl("edge", x, y)),
        rule(H("path", x, z_), Cl("path", y, z_), Cl("edge", x, y))]))
    P.append(Program("same_gen", [R("par", I, I), R("sg", I, I)], [
        rule(H("sg", x, y), Cl("par", x, z_), Cl("par", y, z_)),
        rule(H("sg", x, y), Cl("par", x, a), Cl("sg", a, b), Cl("par", y, b))]))
    P.append(Program("mutual2", [R("e", I, I), R("odd", I, I), R("even", I, I)], [
        rule(H("odd", x, y), Cl("e", x, y)),
        rule(H("even", x, z_), Cl("odd", x, y), Cl("e", y, z_)),
        rule(H("odd", x, z_), Cl("even", x, y), Cl("e", y, z_))]))
    P.append(Program("mutual3", [R("s", I), R("p", I), R("q", I), R("r", I), R("nx", I, I)], [
        rule(H("p", x), Cl("s", x)),
        rule(H("q", y), Cl("p", x), Cl("nx", x, y)),
        rule(H("r", y), Cl("q", x), Cl("nx", x, y)),
        rule(H("p", y), Cl("r", x), Cl("nx", x, y))]))
    P.append(Program("three_dyn", [R("e", I, I), R("p", I, I)], [
        rule(H("p", x, y), Cl("e", x, y)),
        rule(H("p", x, w), Cl("p", x, y), Cl("p", y, z_), Cl("p", z_, w))]))
    P.append(Program("join_cond2", [R("e", I, I), R("f", I, I), R("g", I, I)], [
        rule(H("g", x, z_), Cl("e", x, y), Cl("f", y, z_), If(Bin("!=", x, z_))),
        rule(H("g", x, z_), Cl("g", x, y), Cl("g", y, z_), If(Bin("<", x, z_)))]))
    P.append(Program("consts_repeats", [R("e", I, I), R("f", I, I, I), R("g", I), R("h", I, I)], [
        rule(H("g", x), Cl("e", x, x)),
        rule(H("g", x), Cl("e", C(1), x)),
        rule(H("h", x, y), Cl("e", x, y), Cl("f", y, y, x)),
        rule(H("h", x, C(2)), Cl("f", x, C(0), _), Cl("e", _, x)),
        rule(H("h", y, x), Cl("h", x, y), Cl("e", y, Bin("+", x, C(0))))]))
    P.append(Program("generators", [R("s", I), R("r", I, I), R("q", I, I)], [
        rule(H("r", x, y), For(PV("x"), Rng(C(0), C(3))), Cl("s", x), Let(PV("y"), Bin("%", Bin("+", x, C(1)), C(3)))),
        rule(H("q", x, y), Cl("r", x, z_), For(PV("y"), Rng(C(0), z_)), If(Bin("!=", x, y))),
        rule(H("q", y, x), Cl("q", x, y), Cl("s", y))]))
    P.append(Program("facts_multihead", [R("a", I), R("b", I, I), R("c", I)], [
        rule(H("a", C(1))),
        rule([H("b", C(0), C(1)), H("b", C(1), C(2))]),
        rule([H("c", x), H("a", y)], Cl("b", x, y)),
        rule(H("b", x, x), Cl("a", x), Cl("c", x))]))
    P.append(Program("empty_rel", [R("e", I, I), R("never", I, I), R("p", I, I), R("q", I, I)], [
        rule(H("p", x, y), Cl("e", x, y)),
        rule(H("p", x, z_), Cl("p", x, y), Cl("never", y, z_)),
        rule(H("q", x, z_), Cl("never", x, y), Cl("p", y, z_)),
        rule(H("q", x, y), Cl("p", x, y), Cl("p", y, x))]))
    P.append(Program("two_strata", [R("e", I, I), R("p", I, I), R("q", I, I), R("top", I)], [
        rule(H("p", x, y), Cl("e", x, y)),
        rule(H("p", x, z_), Cl("p", x, y), Cl("e", y, z_)),
        rule(H("q", x, y), Cl("p", x, y), Cl("p", y, x)),
        rule(H("q", x, z_), Cl("q", x, y), Cl("p", y, z_)),
        rule(H("top", x), Cl("q", x, _), Cl("p", _, x))]))
    P.append(Program("iflet_let", [R("e", I, I), R("o", "Option<i32>"), R("r", I, I)], [
        rule(H("r", x, y), Cl("o", Pat(PC("Some", PV("x")))), Cl("e", x, y)),
        rule(H("r", y, zz()), Cl("r", x, y), Let(PV("zz"), Bin("%", Bin("+", y, C(1)), C(3))), If(Bin("!=", zz(), x))),
        rule(H("o", Ctor("Some", y)), Cl("r", x, y), If(Bin("==", x, C(0))))]))
    # binders (let / for / if let) in front of a two-clause join whose second clause uses the bound variable
    P.append(Program("binder_before_join", [R("foo", I, I), R("bar", I, I), R("o", "Option<i32>"), R("out", I, I, I), R("out2", I, I, I), R("out3", I, I)], [
        rule(H("out", x, y, z_), Let(PV("z"), C(2)), Cl("foo", x, y), Cl("bar", y, z_)),
        rule(H("out2", x, y, z_), For(PV("z"), Rng(C(0), C(2))), Cl("foo", x, y), Cl("bar", y, z_)),
        rule(H("out3", x, z_), Cl("o", Pat(PC("Some", PV("q")))), Let(PV("z"), Bin("%", Bin("+", V("q"), C(1)), C(3))), Cl("foo", x, y), Cl("bar", y, z_)),
        rule(H("foo", x, z_), For(PV("z"), Rng(C(1), C(3))), Cl("foo", x, y), Cl("bar", y, z_))]))
    # the binder's variable used in the FIRST clause of a two-clause join; reference patterns in binders
    P.append(Program("binder_first_clause", [R("foo", I, I), R("bar", I, I), R("src", I), R("o", "Option<i32>"), R("t1", I, I, I), R("t2", I, I), R("t3", I, I), R("t4", I, I)], [
        rule(H("t1", x, y, z_), For(PV("x"), Rng(C(0), C(2))), Cl("foo", x, y), Cl("bar", y, z_)),
        rule(H("t2", x, z_), Let(PV("x"), C(1)), Cl("foo", x, y), Cl("bar", y, z_)),
        rule(H("t3", V("s"), y), For(PRef(PV("s")), ArrIter([0, 2])), Cl("foo", V("s"), y), Cl("src", y)),
        rule(H("t4", k, y), Cl("o", V("ov")), IfLet(PRef(PC("Some", PV("k"))), V("ov")), Cl("foo", k, y), Cl("bar", y, _)),
        rule(H("foo", y, x), Cl("t3", x, y), Cl("bar", x, _))]))
    # a recursive multi-head rule with a write-only side head, re-derived by a later stratum
    P.append(Program("multihead_side", [R("edge", I, I), R("bridge", I, I), R("path", I, I), R("zseen", I), R("aseen", I), R("shortcut", I, I)], [
        rule(H("path", x, y), Cl("edge", x, y)),
        rule([H("path", x, z_), H("zseen", z_), H("aseen", x), H("shortcut", x, z_)], Cl("path", x, y), Cl("edge", y, z_)),
        rule(H("shortcut", x, z_), Cl("path", x, z_), Cl("bridge", x, z_)),
        rule(H("zseen", x), Cl("shortcut", x, _))]))
    # a rule reading a non-last head of a multi-head rule that is written *below* it
    P.append(Program("reader_before_multihead", [R("src", I), R("c", I, I), R("a", I), R("b", I), R("d", I), R("out", I, I)], [
        rule(H("out", x, y), Cl("a", x), Cl("c", x, y)),
        rule(H("d", x), Cl("b", x), Cl("out", x, _)),
        rule([H("a", x), H("b", x)], Cl("src", x)),
        rule([H("b", y), H("a", y), H("d", y)], Cl("out", _, y), Cl("src", y))]))
    P.append(Program("reader_first_recursive_multihead", [R("edge", I, I), R("start", I), R("reach", I), R("used", I, I), R("out", I), R("out2", I, I)], [
        rule(H("out", x), Cl("reach", x)),
        rule(H("out2", x, y), Cl("used", x, y), Cl("out", y)),
        rule([H("reach", y), H("used", x, y)], Cl("reach", x), Cl("edge", x, y)),
        rule(H("reach", x), Cl("start", x))]))
    # bodies without any clause; zero-arity relations; bool and tuple columns; destructuring let
    P.append(Program("no_clause_bodies", [R("r", I, I), R("s", I), R("t", I, I)], [
        rule(H("r", x, y), For(PV("x"), Rng(C(0), C(3))), Let(PV("y"), Bin("%", Bin("+", x, C(1)), C(3))), If(Bin("!=", x, C(1)))),
        rule(H("s", x), Let(PV("x"), C(2))),
        rule(H("t", x, y), Cl("s", x), For(PV("y"), Rng(C(0), x)), Cl("r", y, _)),
        rule(H("s", y), Cl("t", _, y), If(Bin("<", y, C(2))))]))
    P.append(Program("zero_arity", [R("e", I, I), R("flag"), R("any_self"), R("p", I)], [
        rule(H("any_self"), Cl("e", x, x)),
        rule(H("flag"), Cl("any_self"), Cl("e", C(0), _)),
        rule(H("p", x), Cl("flag"), Cl("e", x, _)),
        rule(H("p", y), Cl("p", x), Cl("e", x, y), Cl("any_self"))]))
    P.append(Program("bool_tuple_cols", [R("b", I, "bool"), R("pr", "(i32, i32)", I), R("o1", I, I), R("o2", "(i32, i32)", "bool")], [
        rule(H("o1", x, V("q")), Cl("b", x, C(True)), Cl("pr", Pat(PC(None, PV("q"), PW())), x)),
        rule(H("o1", V("a1"), V("a2")), Cl("pr", V("tp"), _), Let(PC(None, PV("a1"), PV("a2")), V("tp"))),
        rule(H("o2", Ctor(None, x, y), V("f")), Cl("o1", x, y), Cl("b", y, V("f"))),
        rule(H("b", x, C(False)), Cl("o2", Pat(PC(None, PV("x"), PW())), C(True)))]))
    P.append(Program("join_repeat_second", [R("foo", I, I), R("bar", I, I), R("r", I, I), R("r2", I, I)], [
        rule(H("r", x, y), Cl("foo", x, y), Cl("bar", y, y)),
        rule(H("r2", x, y), Cl("bar", y, y), Cl("foo", x, y)),
        rule(H("foo", y, x), Cl("r", x, y), Cl("foo", y, y))]))
    # two clauses of one rule each carrying an expression argument over their own variable (each is desugared
    # to a fresh variable + condition; the fresh names must differ)
    P.append(Program("two_expr_clauses", [R("step", I, I), R("link", I, I), R("chain", I, I)], [
        rule(H("chain", x, y), Cl("step", x, Bin("%", Bin("+", x, C(1)), C(3))), Cl("step", y, Bin("%", Bin("+", y, C(1)), C(3))), Cl("link", x, y)),
        rule(H("link", y, x), Cl("chain", x, y), Cl("step", Bin("%", Bin("+", y, C(2)), C(3)), y))]))
    # a three-clause rule over two different relations of the same SCC (the delta x delta combination of the
    # first variant is the only one that joins a new fact of one with a new fact of the other)
    P.append(Program("three_clause_two_dyn", [R("hired", I), R("senior", I), R("referral", I, I, I), R("employee", I), R("mentor", I)], [
        rule(H("employee", x), Cl("hired", x)),
        rule(H("mentor", y), Cl("employee", y), Cl("senior", y)),
        rule(H("employee", z_), Cl("employee", x), Cl("mentor", y), Cl("referral", x, y, z_))]))
    # two heads of one rule on the same relation that coincide for some bindings (x == y)
    P.append(Program("multihead_same_rel", [R("edge", I, I), R("conn", I, I), R("reach", I, I)], [
        rule([H("conn", x, y), H("conn", y, x)], Cl("edge", x, y)),
        rule([H("reach", x, z_), H("reach", z_, x), H("reach", x, x)], Cl("conn", x, y), Cl("reach", y, z_)),
        rule(H("reach", x, y), Cl("conn", x, y))]))
    P.append(Program("arity3", [R("t", I, I, I), R("s", I, I), R("u", I, I, I)], [
        rule(H("u", x, y, z_), Cl("t", x, y, z_)),
        rule(H("u", x, z_, y), Cl("u", x, y, z_), Cl("s", y, z_)),
        rule(H("s", x, z_), Cl("u", x, _, z_), Cl("s", z_, x))]))
    return P


def zz():
    return V("zz")


# ------------------------------------------------------------------------------------ random programs
class RandGen:
    """well-formed by construction: grounded heads, no shadowing, positive programs"""

    def __init__(self, seed, max_arity=2, max_body=2, sugar=False):
        self.rng = random.Random(seed)
        self.max_arity, self.max_body, self.sugar = max_arity, max_body, sugar

    def program(self, name, nrel=None, nrule=None):
        rng = self.rng
        nrel = nrel or rng.randint(2, 4)
        rels = []
        for i in range(nrel):
            ar = min(self.max_arity, rng.choice([1, 2, 2, 2, 3])) if i > 0 else 2
            rels.append(R("r%d" % i, *([I] * ar)))
        rules = []
        nrule = nrule or rng.randint(2, 5)
        for _i in range(nrule):
            rules.append(self.rule(rels))
        return Program(name, rels, rules)

    def rule(self, rels):
        rng = self.rng
        nb = min(self.max_body, rng.choice([1, 2, 2, 3]))
        vars_pool = ["x", "y", "z", "w", "u"]
        bound = []
        body = []
        if rng.random() < 0.2:
            k_ = rng.random()
            if k_ < 0.4:
                body.append(Let(PV("b0"), C(rng.randint(0, 2))))
            elif k_ < 0.75:
                body.append(For(PV("b0"), Rng(C(0), C(rng.randint(2, 3)))))
            else:
                body.append(For(PRef(PV("b0")), ArrIter(sorted(rng.sample([0, 1, 2], 2)))))
            bound.append("b0")
        for _i in range(nb):
            r = rng.choice(rels)
            args = []
            for _j in range(r.arity):
                p = rng.random()
                if bound and p < 0.35:
                    args.append(V(rng.choice(bound)))
                elif p < 0.42:
                    args.append(C(rng.randint(0, 2)))
                elif p < 0.52:
                    args.append(Wild())
                elif bound and p < 0.58:
                    args.append(Bin("%", Bin("+", V(rng.choice(bound)), C(1)), C(3)))
                else:
                    free = [q for q in vars_pool if q not in bound]
                    if free:
                        nm = rng.choice(free[:2])
                        # a fresh variable used twice inside one clause is a repeated variable: allowed
                        args.append(V(nm))
                        newly = nm
                    else:
                        args.append(V(rng.choice(bound)))
                        newly = None
            for a_ in args:
                if isinstance(a_, V) and a_.n not in bound:
                    bound.append(a_.n)
            body.append(Clause(r.name, args))
            if bound and rng.random() < 0.25:
                va = V(rng.choice(bound))
                others = [q for q in bound if q != va.n]
                vb = V(rng.choice(others)) if (others and rng.random() < 0.6) else C(rng.randint(0, 2))
                body.append(If(Bin(rng.choice(["!=", "<", "<=", "=="]), va, vb)))
            elif bound and rng.random() < 0.12:
                nm = "l%d" % len(bound)
                body.append(Let(PV(nm), Bin("%", Bin("+", V(rng.choice(bound)), C(rng.randint(1, 2))), C(3))))
                bound.append(nm)
        # sugar (only when asked for): wrap one clause into a disjunction with an alternative clause binding the same variables
        if self.sugar and body and rng.random() < 0.3:
            idx = [i for i, it in enumerate(body) if isinstance(it, Clause)]
            i = rng.choice(idx)
            cl = body[i]
            alt_rel = rng.choice([r for r in rels if r.arity == len(cl.args)] or [None])
            if alt_rel is not None:
                body[i] = Disj([[cl], [Clause(alt_rel.name, list(cl.args))]])
        heads = []
        for _h in range(2 if rng.random() < (0.25 if self.sugar else 0.15) else 1):
            hr = rng.choice(rels)
            hargs = []
            for _j in range(hr.arity):
                if bound and rng.random() < 0.85:
                    hargs.append(V(rng.choice(bound)))
                else:
                    hargs.append(C(rng.randint(0, 2)))
            heads.append(Head(hr.name, hargs))
        return Rule(heads, body)


def random_programs(seed, count, prefix="rnd", max_arity=2, max_body=2, sugar=False):
    g = RandGen(seed, max_arity, max_body, sugar)
    return [g.program("%s%d_%d" % (prefix, seed % 1000, i)) for i in range(count)]


# ------------------------------------------------------------------------------------ C03 (lattices)
DI = "Dual<i32>"
CP_PRELUDE = "use ascent::lattice::constant_propagation::ConstPropagation::{self, *};"


def c03_curated():
    P = []
    d, l, v_ = V("d"), V("l"), V("v")
    P.append(Program("shortest_path", [R("edge", I, I, I), R("dist", I, I, DI, lattice=True)], [
        rule(H("dist", x, y, Ctor("Dual", w)), Cl("edge", x, y, w)),
        rule(H("dist", x, z_, Ctor("Dual", Bin("+", w, l))), Cl("dist", x, y, Pat(PC("Dual", PV("w")))), Cl("edge", y, z_, l))]))
    P.append(Program("longest_dag", [R("edge", I, I, I), R("longest", I, I, I, lattice=True)], [
        rule(H("longest", x, y, w), Cl("edge", x, y, w), If(Bin("<", x, y))),
        rule(H("longest", x, z_, Bin("+", w, l)), Cl("longest", x, y, w), Cl("edge", y, z_, l), If(Bin("<", y, z_)))]))
    P.append(Program("option_lat", [R("e", I, I), R("o", I, "Option<i32>", lattice=True)], [
        rule(H("o", x, Ctor("Some", y)), Cl("e", x, y)),
        rule(H("o", x, v_), Cl("o", y, v_), Cl("e", x, y))]))
    P.append(Program("constprop", [R("assign", I, I), R("copy", I, I), R("val", I, "ConstPropagation<i32>", lattice=True), R("is_const", I, I)], [
        rule(H("val", x, Ctor("Constant", c)), Cl("assign", x, c)),
        rule(H("val", x, v_), Cl("copy", x, y), Cl("val", y, v_)),
        rule(H("is_const", x, c), Cl("val", x, Pat(PC("Constant", PV("c")))))], prelude=CP_PRELUDE))
    P.append(Program("lat_upward", [R("edge", I, I, I), R("dist", I, I, DI, lattice=True), R("near", I, I)], [
        rule(H("dist", x, y, Ctor("Dual", w)), Cl("edge", x, y, w)),
        rule(H("dist", x, z_, Ctor("Dual", Bin("+", w, l))), Cl("dist", x, y, Pat(PC("Dual", PV("w")))), Cl("edge", y, z_, l)),
        rule(H("near", x, y), Cl("dist", x, y, Pat(PC("Dual", PV("d")))), If(Bin("<=", d, C(1)))),
        rule(H("dist", x, y, Ctor("Dual", C(0))), Cl("near", y, x))]))
    # a lattice keyed on two columns read through a partial-key index (LatticeIndexType on column 1)
    P.append(Program("lat_partial_key", [R("s", I, I, I), R("m", I, I, I, lattice=True), R("reach", I), R("q", I, I)], [
        rule(H("m", x, y, w), Cl("s", x, y, w)),
        rule(H("m", x, y, w), Cl("m", z_, y, w), Cl("q", x, z_)),
        rule(H("reach", y), Cl("q", _, y), Cl("m", _, y, v_), If(Bin(">=", v_, C(1))))]))
    P.append(Program("lat_mutual", [R("e", I, I), R("s", I, I), R("la", I, I, lattice=True), R("lb", I, I, lattice=True)], [
        rule(H("la", x, y), Cl("s", x, y)),
        rule(H("lb", x, v_), Cl("la", x, v_)),
        rule(H("la", x, Call("min", Bin("+", v_, C(1)), C(3))), Cl("lb", y, v_), Cl("e", y, x))]))
    # ?patterns in two different clauses of one rule (path doubling), and the same with a third clause
    P.append(Program("lat_two_patterns", [R("edge", I, I, I), R("sp", I, I, DI, lattice=True)], [
        rule(H("sp", x, y, Ctor("Dual", w)), Cl("edge", x, y, w)),
        rule(H("sp", x, z_, Ctor("Dual", Bin("+", a, b))), Cl("sp", x, y, Pat(PC("Dual", PV("a")))), Cl("sp", y, z_, Pat(PC("Dual", PV("b")))))]))
    P.append(Program("lat_via_hubs", [R("edge", I, I, I), R("hub", I), R("sp", I, I, DI, lattice=True)], [
        rule(H("sp", x, y, Ctor("Dual", w)), Cl("edge", x, y, w)),
        rule(H("sp", x, z_, Ctor("Dual", Bin("+", a, b))), Cl("sp", x, y, Pat(PC("Dual", PV("a")))), Cl("sp", y, z_, Pat(PC("Dual", PV("b")))), Cl("hub", y))]))
    # two clauses over one lattice of the stratum behind a leading input clause (not a simple join)
    P.append(Program("lat_upper_bound", [R("init", I, I), R("add", I, I), R("hi", I, I, lattice=True)], [
        rule(H("hi", x, v_), Cl("init", x, v_)),
        rule(H("hi", z_, Call("min", Bin("+", a, b), C(2))), Cl("add", z_, x), Cl("hi", x, a), Cl("hi", z_, b))]))
    # upward-closed reads with the lattice column bound to a constant: the top element of a partial order (reached
    # only by joining two incomparable values) and `true` of the bool lattice, through indices that include the
    # lattice column
    P.append(Program("lat_top_read", [R("assign", I, I), R("copy", I, I), R("val", I, "ConstPropagation<i32>", lattice=True), R("unknown", I)], [
        rule(H("val", x, Ctor("Constant", c)), Cl("assign", x, c)),
        rule(H("val", x, v_), Cl("copy", x, y), Cl("val", y, v_)),
        rule(H("unknown", x), Cl("val", x, Ctor("ConstPropagation::Top")))], prelude=CP_PRELUDE))
    P.append(Program("lat_bool_flag", [R("work", I, I), R("okd", I, I), R("wanted", I), R("done", I, I, "bool", lattice=True), R("finisher", I, I)], [
        rule(H("done", t, w, C(False)), Cl("work", t, w)),
        rule(H("done", t, w, C(True)), Cl("work", t, w), Cl("okd", t, w)),
        rule(H("finisher", t, w), Cl("wanted", t), Cl("done", t, w, C(True)))]))
    P.append(Program("lat_nokey", [R("s", I), R("mx", I, lattice=True), R("mn", DI, lattice=True), R("both", I, I)], [
        rule(H("mx", x), Cl("s", x)),
        rule(H("mn", Ctor("Dual", x)), Cl("s", x)),
        rule(H("both", a, b), Cl("mx", a), Cl("mn", Pat(PC("Dual", PV("b")))))]))
    return P


def c13_extra():
    """programs used only by the C13 re-run scenario (the set of relations must not change on a second run()
    whatever the program does with lattice values)"""
    P = []
    v_ = V("v")
    # a plain body clause over a derived lattice with every column bound (reads the lattice's all-columns index)
    P.append(Program("lat_all_columns_bound", [R("s", I, I), R("query", I, I), R("dist", I, I, lattice=True), R("ok", I)], [
        rule(H("dist", x, v_), Cl("s", x, v_)),
        rule(H("ok", x), Cl("query", x, v_), Cl("dist", x, v_))]))
    # the same read inside the lattice's own stratum (delta / total+delta variants of the all-columns index)
    P.append(Program("lat_all_columns_bound_rec", [R("start", I, I), R("hop", I, I, I), R("lvl", I, I, lattice=True), R("seen", I)], [
        rule(H("lvl", x, v_), Cl("start", x, v_)),
        rule(H("seen", y), Cl("hop", x, y, v_), Cl("lvl", x, v_)),
        rule(H("lvl", y, C(1)), Cl("seen", y))]))
    return P


# ------------------------------------------------------------------------------------ C04 (negation / aggregation)
WSUM_PRELUDE = """pub fn wsum<'a>(inp: impl Iterator<Item = (&'a i32, &'a i32)>) -> impl Iterator<Item = i32> {
      std::iter::once(inp.map(|(a, b)| a * 3 + b).sum())
   }"""


ENDS_PRELUDE = """pub fn ends<'a>(inp: impl Iterator<Item = (&'a i32,)>) -> impl Iterator<Item = i32> {
      let v: Vec<i32> = inp.map(|t| *t.0).collect();
      let (mn, mx) = (v.iter().min().cloned(), v.iter().max().cloned());
      mn.into_iter().chain(mx.filter(|m| Some(*m) != mn))
   }"""


def c04_curated():
    P = []
    m_, s_ = V("m"), V("s")
    P.append(Program("agg_count_key", [R("e", I, I), R("deg", I, "usize")], [
        rule(H("deg", x, n), Cl("e", x, _), Agg(PV("n"), "count", [], "e", [x, _]))]))
    P.append(Program("agg_sum_min_max", [R("e", I, I), R("k", I), R("sm", I, I), R("mn", I, I), R("mx", I, I)], [
        rule(H("sm", x, s_), Cl("k", x), Agg(PV("s"), "sum", ["y"], "e", [x, y])),
        rule(H("mn", x, m_), Cl("k", x), Agg(PV("m"), "min", ["y"], "e", [x, y])),
        rule(H("mx", x, m_), Cl("k", x), Agg(PV("m"), "max", ["y"], "e", [y, x]))]))
    P.append(Program("agg_global", [R("e", I, I), R("total", "usize"), R("top", I), R("has_none", I)], [
        rule(H("total", n), Agg(PV("n"), "count", [], "e", [_, _])),
        rule(H("top", m_), Agg(PV("m"), "max", ["y"], "e", [_, y])),
        rule(H("has_none", C(1)), Neg("e", [_, _]))]))
    # rules whose body has no positive clause (aggregate / negation only), written *above* the rules and the
    # fact that produce what they read; the producers take part in no other dependency
    P.append(Program("agg_only_before_producer", [R("raw", I), R("valid", I), R("n_valid", "usize"), R("none_valid", I), R("hi", I), R("n_seed", "usize"), R("seed", I)], [
        rule(H("n_valid", n), Agg(PV("n"), "count", [], "valid", [_])),
        rule(H("none_valid", C(1)), Neg("valid", [_])),
        rule(H("hi", m_), Agg(PV("m"), "max", ["x"], "valid", [x])),
        rule(H("n_seed", n), For(PV("k"), Rng(C(0), C(1))), Agg(PV("n"), "count", [], "seed", [_])),
        rule(H("valid", x), Cl("raw", x), If(Bin("!=", x, C(1)))),
        rule(H("seed", C(2)))]))
    P.append(Program("neg_basic", [R("e", I, I), R("node", I), R("sink", I), R("noself", I), R("iso", I)], [
        rule(H("sink", x), Cl("node", x), Neg("e", [x, _])),
        rule(H("noself", x), Cl("node", x), Neg("e", [x, x])),
        rule(H("iso", x), Cl("sink", x), Neg("e", [_, x]))]))
    P.append(Program("agg_over_recursive", [R("e", I, I), R("p", I, I), R("reach_cnt", I, "usize"), R("unreach", I, I)], [
        rule(H("p", x, y), Cl("e", x, y)),
        rule(H("p", x, z_), Cl("p", x, y), Cl("e", y, z_)),
        rule(H("reach_cnt", x, n), Cl("e", x, _), Agg(PV("n"), "count", [], "p", [x, _])),
        rule(H("unreach", x, y), Cl("e", x, _), Cl("e", _, y), Neg("p", [x, y]))]))
    P.append(Program("agg_chain", [R("e", I, I), R("deg", I, "usize"), R("maxdeg", "usize"), R("hub", I)], [
        rule(H("deg", x, n), Cl("e", x, _), Agg(PV("n"), "count", [], "e", [x, _])),
        rule(H("maxdeg", m_), Agg(PV("m"), "max", ["d"], "deg", [_, V("d")])),
        rule(H("hub", x), Cl("deg", x, V("d")), Cl("maxdeg", V("d")))]))
    P.append(Program("agg_over_lattice", [R("edge", I, I, I), R("dist", I, I, DI, lattice=True), R("cnt", I, "usize"), R("far", I, DI)], [
        rule(H("dist", x, y, Ctor("Dual", w)), Cl("edge", x, y, w)),
        rule(H("dist", x, z_, Ctor("Dual", Bin("+", w, V("l")))), Cl("dist", x, y, Pat(PC("Dual", PV("w")))), Cl("edge", y, z_, V("l"))),
        rule(H("cnt", x, n), Cl("edge", x, _, _), Agg(PV("n"), "count", [], "dist", [x, _, _])),
        rule(H("far", x, m_), Cl("edge", x, _, _), Agg(PV("m"), "max", ["d"], "dist", [x, _, V("d")]))]))
    P.append(Program("agg_lattice_value_bound", [R("s", I, I), R("q", I), R("m", I, I, lattice=True), R("cnt", I, "usize"), R("nohit", I)], [
        rule(H("m", x, y), Cl("s", x, y)),
        rule(H("cnt", V("v"), n), Cl("q", V("v")), Agg(PV("n"), "count", [], "m", [_, V("v")])),
        rule(H("nohit", V("v")), Cl("q", V("v")), Neg("m", [_, V("v")]))]))
    P.append(Program("agg_before_join", [R("r", I, I), R("p", I), R("q", I, I), R("h", I, I), R("h2", I, "usize")], [
        rule(H("h", y, m_), Agg(PV("m"), "max", ["v"], "r", [_, V("v")]), Cl("p", y), Cl("q", y, m_)),
        rule(H("h2", y, n), Cl("p", y), Agg(PV("n"), "count", [], "r", [y, _]), Cl("q", y, _), Cl("r", _, y))]))
    # a destructuring aggregate pattern over a tuple-typed column, joined with a later clause
    P.append(Program("agg_tuple_pattern", [R("reading", I, "(i32, i32)"), R("sensor", I), R("flagged", I), R("alarm", I, I), R("first", I)], [
        rule(H("alarm", x, V("v")), Cl("sensor", x), Agg(PC(None, PV("t"), PV("v")), "max", ["r"], "reading", [x, V("r")]), Cl("flagged", V("v"))),
        rule(H("first", V("t")), Agg(PC(None, PV("t"), PW()), "min", ["r"], "reading", [_, V("r")]), Cl("sensor", V("t")))]))
    P.append(Program("agg_custom_two_args", [R("cand", I, I, I), R("g", I), R("best", I, I), R("best2", I, I)], [
        rule(H("best", x, s_), Cl("g", x), Agg(PV("s"), "wsum", ["b", "a"], "cand", [x, V("a"), V("b")])),
        rule(H("best2", x, s_), Cl("g", x), Agg(PV("s"), "wsum", ["a", "b"], "cand", [V("a"), x, V("b")]))],
        prelude=WSUM_PRELUDE))
    # an aggregator that yields two results for one group: the rule fires once per result
    P.append(Program("agg_multi_result", [R("score", I, I), R("p", I), R("podium", I, I), R("n_podium", "usize")], [
        rule(H("podium", x, s_), Cl("p", x), Agg(PV("s"), "ends", ["v"], "score", [x, V("v")])),
        rule(H("n_podium", n), Agg(PV("n"), "count", [], "podium", [_, _]))], prelude=ENDS_PRELUDE))
    P.append(Program("neg_expr_args", [R("e", I, I), R("k", I), R("a", I), R("b", I, I)], [
        rule(H("a", x), Cl("k", x), Neg("e", [Bin("%", Bin("+", x, C(1)), C(3)), x])),
        rule(H("b", x, y), Cl("e", x, y), Neg("e", [y, Bin("%", Bin("+", x, y), C(3))]), Neg("k", [y])),
        rule(H("a", y), Cl("b", _, y), Neg("k", [C(0)]))]))
    P.append(Program("agg_mean", [R("e", I, I), R("avg", I, I)], [
        rule(H("avg", x, Bin("*", m_, C(1))), Cl("e", x, _), Agg(PV("m"), "sum", ["y"], "e", [x, y]))]))
    P.append(Program("agg_bound_expr", [R("e", I, I), R("k", I), R("r", I, "usize")], [
        rule(H("r", x, n), Cl("k", x), Agg(PV("n"), "count", [], "e", [Bin("%", Bin("+", x, C(1)), C(3)), _])),
        rule(H("r", x, n), Cl("k", x), Agg(PV("n"), "count", [], "e", [x, C(1)]))]))
    return P


# ------------------------------------------------------------------------------------ C07 (surface forms)
def c07_curated():
    P = []
    OI = "Option<i32>"
    P.append(Program("disj_basic", [R("e", I, I), R("f", I, I), R("g", I), R("r", I, I), R("s", I, I)], [
        rule(H("r", x, y), Disj([[Cl("e", x, y)], [Cl("f", x, y)]])),
        rule(H("s", x, y), Disj([[Cl("e", x, y)], [Cl("f", x, y), Cl("g", y)]])),
        rule(H("s", x, z_), Disj([[Cl("e", x, y)], [Cl("f", x, y)]]), Disj([[Cl("e", y, z_)], [Cl("f", y, z_)]]))]))
    P.append(Program("disj_positions", [R("e", I, I), R("f", I, I), R("p", I, I), R("q", I, I), R("t", I, I)], [
        rule(H("p", x, z_), Cl("e", x, y), Disj([[Cl("e", y, z_)], [Cl("f", y, z_)]])),
        rule(H("q", x, w), Cl("e", x, y), Cl("f", y, z_), Disj([[Cl("e", z_, w)], [Cl("f", z_, w), If(Bin("!=", x, w))]])),
        rule(H("t", x, y), Disj([[Cl("p", x, y), If(Bin("<", x, y))], [Cl("q", y, x), Neg("e", [x, x])]]), Cl("f", _, y)),
        rule(H("p", x, z_), Disj([[Cl("p", x, y)], [Cl("t", x, y)]]), Cl("e", y, z_))]))
    P.append(Program("disj_nested", [R("a", I), R("b", I), R("c", I), R("d", I, I), R("r", I)], [
        rule(H("r", x), Disj([[Cl("a", x)], [Disj([[Cl("b", x)], [Cl("c", x), Cl("d", x, _)]]), Cl("d", _, x)]])),
        rule(H("r", y), Cl("r", x), Disj([[Cl("d", x, y)], [Cl("d", y, x), Disj([[Cl("a", y)], [Cl("b", y)]])]]))]))
    # wildcards in the same column of two clauses over one relation (each `_` is its own fresh variable)
    P.append(Program("wild_selfjoin", [R("edge", I, I), R("t", I, I, I), R("both_src", I, I), R("both_dst", I, I), R("mix", I, I)], [
        rule(H("both_src", x, y), Cl("edge", x, _), Cl("edge", y, _)),
        rule(H("both_dst", x, y), Cl("edge", _, x), Cl("edge", _, y), If(Bin("!=", x, y))),
        rule(H("mix", x, y), Cl("t", x, _, _), Cl("t", _, y, _), Cl("t", _, _, x)),
        rule(H("edge", x, y), Cl("mix", x, y), Cl("edge", _, y), Cl("edge", _, x))]))
    # an expression argument mixing a variable bound by an earlier clause with one bound in its own clause
    P.append(Program("expr_arg_mixed", [R("foo", I, I), R("bar", I, I), R("res", I, I), R("res2", I, I)], [
        rule(H("res", x, y), Cl("foo", x, _), Cl("bar", y, Bin("%", Bin("+", x, y), C(3)))),
        rule(H("res2", x, y), Cl("bar", y, _), Cl("foo", x, Bin("%", Bin("+", Bin("*", x, C(2)), y), C(3))), Cl("bar", Bin("%", Bin("+", x, y), C(3)), _))]))
    P.append(Program("pattern_args", [R("o", OI, I), R("e", I, I), R("r", I, I), R("s", I)], [
        rule(H("r", x, y), Cl("o", Pat(PC("Some", PV("x"))), y)),
        rule(H("s", x), Cl("o", Pat(PC("Some", PV("x"))), y), Cl("e", y, x), Cl("o", _, y)),
        rule(H("s", y), Cl("e", x, y), Cl("o", Pat(PC("Some", PV("q"))), x), If(Bin("!=", V("q"), y))),
        rule(H("o", Ctor("Some", y), x), Cl("r", x, y), Cl("o", Pat(PC("None")), _)),
        rule(H("r", x, y), Cl("o", Pat(PC("Some", PV("x"))), _), Cl("o", Pat(PC("Some", PV("y"))), C(1)))]))
    P.append(Program("repeated_vars", [R("e", I, I), R("t", I, I, I), R("a", I), R("b", I, I), R("c", I, I)], [
        rule(H("a", x), Cl("t", x, x, x)),
        rule(H("b", x, y), Cl("e", x, y), Cl("t", y, x, y)),
        rule(H("c", x, y), Cl("e", x, _), Cl("e", _, y), Cl("t", x, y, x)),
        rule(H("b", x, x), Cl("b", x, y), Cl("e", y, y)),
        rule(H("a", x), Let(PV("z"), C(1)), Cl("e", x, y), Cl("b", y, z_)),
        rule(H("a", y), For(PV("x"), Rng(C(1), C(3))), Cl("e", x, y), Cl("b", y, _)),
        rule(H("c", x, y), Cl("e", x, y), Cl("b", y, y)),
        rule(H("c", y, y), Cl("c", x, y), Cl("b", y, x), Cl("t", x, _, y))]))
    P.append(Program("expr_args", [R("e", I, I), R("f", I, I), R("r", I, I), R("s", I, I)], [
        rule(H("r", x, y), Cl("e", x, Bin("%", Bin("+", x, C(1)), C(3))), Cl("f", x, y)),
        rule(H("s", x, z_), Cl("e", x, y), Cl("f", y, Bin("%", Bin("+", y, C(2)), C(3))), Cl("f", x, z_)),
        rule(H("s", x, y), Cl("r", x, y), Cl("e", Bin("%", Bin("+", y, C(1)), C(3)), C(0))),
        rule(H("r", Bin("%", Bin("+", x, y), C(3)), x), Cl("s", x, y), Cl("f", C(1), Bin("%", Bin("*", x, C(2)), C(3))))]))
    P.append(Program("wild_neg_heads", [R("e", I, I), R("n", I), R("a", I), R("b", I), R("c", I, I)], [
        rule([H("a", x), H("b", y)], Cl("e", x, y), Neg("e", [y, _])),
        rule([H("c", x, x), H("c", x, C(0))], Cl("n", x), Neg("e", [_, x]), Neg("e", [x, x])),
        rule(H("a", C(2))),
        rule([H("b", C(0)), H("n", C(1))]),
        rule(H("c", x, y), Cl("a", x), Cl("b", y), Neg("n", [Bin("%", Bin("+", x, y), C(3))]))]))
    P.append(Program("sugar_mix", [R("e", I, I), R("o", OI, I), R("m", I), R("k", I), R("r", I, I)], [
        rule([H("r", x, y), H("m", x)], Disj([[Cl("e", x, y), Cl("e", y, y)], [Cl("o", Pat(PC("Some", PV("x"))), y), Neg("k", [y])]]), If(Bin("<=", x, y))),
        rule(H("r", y, x), Cl("r", x, y), Disj([[Cl("e", y, Bin("%", Bin("+", x, C(1)), C(3)))], [Cl("e", x, x)]]))]))
    return P


# ------------------------------------------------------------------------------------ C08 (in-program macros)
def c08_curated():
    P = []
    tt, uu = V("t"), V("u")
    both = MacroDef("both", [("a", "ident"), ("b", "ident")], [Cl("e", V("a"), tt), Cl("f", tt, V("b"))])
    P.append(Program("macro_basic", [R("e", I, I), R("f", I, I), R("g", I, I), R("r", I, I), R("r2", I, I), R("r3", I, I)], [
        rule(H("r", x, y), MacroCall("both", [x, y])),
        rule(H("r2", x, z_), MacroCall("both", [x, y]), MacroCall("both", [y, z_])),
        rule(H("r3", x, tt), MacroCall("both", [x, y]), Cl("g", y, tt))], macros=[both]))
    exprm = MacroDef("exprm", [("e1", "expr")], [Cl("g", V("e1"), uu), If(Bin(">", uu, C(0)))])
    P.append(Program("macro_expr_param", [R("e", I, I), R("g", I, I), R("r4", I, I), R("r5", I, I)], [
        rule(H("r4", x, uu), Cl("e", x, uu), MacroCall("exprm", [Bin("%", Bin("+", x, C(1)), C(3))])),
        rule(H("r5", x, y), Cl("e", x, y), MacroCall("exprm", [x]), MacroCall("exprm", [y]))], macros=[exprm]))
    inner = MacroDef("inner", [("a", "ident"), ("b", "ident")], [Cl("e", V("a"), V("w")), Cl("e", V("w"), V("b"))])
    outer = MacroDef("outer", [("a", "ident")], [MacroCall("inner", [V("a"), V("w")]), Cl("g", V("w"), _)])
    P.append(Program("macro_nested", [R("e", I, I), R("g", I, I), R("r", I), R("r2", I, I)], [
        rule(H("r", x), MacroCall("outer", [x])),
        rule(H("r2", x, V("w")), MacroCall("outer", [x]), Cl("g", x, V("w")), MacroCall("inner", [V("w"), y]), Cl("r", y))],
        macros=[inner, outer]))
    hd = MacroDef("hd", [("p", "expr"), ("q", "expr")], [Head("sym", [V("p"), V("q")]), Head("sym", [V("q"), V("p")])], head=True)
    disjm = MacroDef("either", [("a", "ident"), ("b", "ident")], [Disj([[Cl("e", V("a"), V("b"))], [Cl("e", V("a"), V("k")), Cl("e", V("k"), V("b"))]])])
    P.append(Program("macro_head_disj", [R("e", I, I), R("sym", I, I), R("near", I, I)], [
        rule([MacroCall("hd", [x, y])], Cl("e", x, y)),
        rule(H("near", x, y), MacroCall("either", [x, y]), If(Bin("!=", x, y))),
        rule([MacroCall("hd", [x, V("k")])], MacroCall("either", [x, y]), Cl("near", y, V("k")))], macros=[hd, disjm]))
    # a Rust macro call (matches!) mentioning a macro-local variable, inside a disjunction of the macro body,
    # with a call-site variable of the same spelling; and two locals spelled `x` / `x1` with repeated invocations
    small = MacroDef("small", [("a", "ident"), ("r", "ident")], [Disj([
        [Cl("e", V("a"), y), If(Matches(y, [1, 2])), Cl("g", y, V("r"))],
        [Cl("g", V("a"), y), Cl("e", y, V("r"))]])])
    hop3 = MacroDef("hop3", [("a", "ident"), ("b", "ident")], [Cl("e", V("a"), V("x")), Cl("e", V("x"), V("x1")), Cl("e", V("x1"), V("b"))])
    P.append(Program("macro_rustmacro_locals", [R("e", I, I), R("g", I, I), R("r", I, I, I), R("h", I, I)], [
        rule(H("r", x, y, z_), Cl("e", x, y), MacroCall("small", [y, z_])),
        rule(H("h", a, c), MacroCall("hop3", [a, b]), MacroCall("hop3", [b, c])),
        rule(H("h", a, V("x")), Cl("g", a, V("x")), MacroCall("hop3", [a, b]), MacroCall("hop3", [b, V("x")]), MacroCall("hop3", [V("x"), a]))],
        macros=[small, hop3]))
    # a macro-local bound only through a nested invocation and used only in a condition; the outer macro twice in
    # one rule, and once next to a call-site variable of the same spelling
    step = MacroDef("step", [("a", "ident"), ("b", "ident")], [Cl("e", V("a"), V("b"))])
    big = MacroDef("has_big_succ", [("q", "ident")], [MacroCall("step", [V("q"), tt]), If(Bin(">=", tt, C(1)))])
    P.append(Program("macro_nested_local_cond", [R("e", I, I), R("pair", I, I), R("cap", I), R("cap2", I, I)], [
        rule(H("pair", x, y), MacroCall("has_big_succ", [x]), MacroCall("has_big_succ", [y])),
        rule(H("cap", x), Cl("e", tt, x), MacroCall("has_big_succ", [x]), If(Bin("==", tt, C(0)))),
        rule(H("cap2", x, tt), MacroCall("has_big_succ", [x]), Cl("e", x, tt))], macros=[step, big]))
    # a macro invoked inside a call-site disjunction and again later in the same rule
    via = MacroDef("via", [("a", "ident"), ("b", "ident")], [Cl("e", V("a"), V("mid")), Cl("e", V("mid"), V("b"))])
    P.append(Program("macro_in_disj_then_again", [R("e", I, I), R("g", I, I), R("reach", I, I), R("reach2", I, I)], [
        rule(H("reach", a, c), Disj([[MacroCall("via", [a, b])], [Cl("g", a, b)]]), MacroCall("via", [b, c])),
        rule(H("reach2", a, c), MacroCall("via", [a, b]), Disj([[Cl("g", b, c)], [MacroCall("via", [b, c])]]), MacroCall("via", [c, a]))],
        macros=[via]))
    # a block expression in a macro body re-binding a macro-local from its own previous value, next to a
    # call-site variable of the same spelling
    scaled = MacroDef("scaled", [("xx", "expr"), ("out", "ident")], [
        Let(PV("v"), Bin("%", Bin("+", V("xx"), C(1)), C(3))),
        Let(PV("out"), Blk("v", Bin("%", Bin("+", V("v"), C(1)), C(3)), V("v")))])
    P.append(Program("macro_block_rebind", [R("src", I), R("res", I, I), R("res2", I, I, I)], [
        rule(H("res", V("v"), V("o")), Cl("src", V("v")), MacroCall("scaled", [V("v"), V("o")])),
        rule(H("res2", V("v"), V("p"), V("q")), Cl("res", V("v"), V("o")), MacroCall("scaled", [V("o"), V("p")]), MacroCall("scaled", [V("p"), V("q")]))],
        macros=[scaled]))
    # an `if let` expression in a macro body whose pattern re-binds a macro-local's spelling: the else branch reads
    # the macro-local, the then branch the pattern variable; the call site has a variable of the same spelling
    pick = MacroDef("pick", [("o", "expr"), ("r", "ident")], [
        Cl("dflt", V("v")),
        Let(PV("r"), IfLetEx(PC("Some", PV("v")), V("o"), V("v"), Bin("%", Bin("+", V("v"), C(1)), C(3))))])
    P.append(Program("macro_iflet_else", [R("inp", I, "Option<i32>"), R("dflt", I), R("out", I, I)], [
        rule(H("out", V("v"), V("r")), Cl("inp", V("v"), V("o")), MacroCall("pick", [V("o"), V("r")]))],
        macros=[pick]))
    P.append(Program("macro_iflet_else_nocapture", [R("inp", I, "Option<i32>"), R("dflt", I), R("out2", I, I)], [
        rule(H("out2", V("r"), V("w")), Cl("inp", V("w"), V("o")), MacroCall("pick", [V("o"), V("r")]), Cl("dflt", V("w")))],
        macros=[pick]))
    # call-site variables spelled like gensym outputs / macro-local names
    loc = MacroDef("loc", [("a", "ident")], [Cl("e", V("a"), V("x_")), Cl("e", V("x_"), V("x__")), Cl("g", V("x__"), _)])
    P.append(Program("macro_name_clash", [R("e", I, I), R("g", I, I), R("r", I, I), R("r2", I, I)], [
        rule(H("r", V("x_"), V("x__")), Cl("e", V("x_"), V("x__")), MacroCall("loc", [V("x_")])),
        rule(H("r2", V("a"), V("x_")), Cl("g", V("a"), V("x_")), MacroCall("loc", [V("a")]), MacroCall("loc", [V("x_")]))], macros=[loc]))
    return P


# ------------------------------------------------------------------------------------ C06 (reordering / renaming)
def _rename_prog(p, vmap, rmap, name):
    """consistent renaming of variables (vmap) and relations (rmap)"""
    def ritem(it):
        it = it.sub(vmap)
        if isinstance(it, (Clause, Neg)):
            it.rel = rmap.get(it.rel, it.rel)
        elif isinstance(it, Agg):
            it.rel = rmap.get(it.rel, it.rel)
        elif isinstance(it, Disj):
            it.alts = [[ritem(x) for x in alt] for alt in it.alts]
        return it
    rels = [Rel(rmap.get(r.name, r.name), list(r.types), r.lattice, r.ds, r.init) for r in p.rels]
    rules = []
    for r in p.rules:
        heads = []
        for h in r.heads:
            h2 = h.sub(vmap)
            h2.rel = rmap.get(h2.rel, h2.rel)
            heads.append(h2)
        rules.append(Rule(heads, [ritem(it) for it in r.body]))
    return Program(name, rels, rules, attrs=list(p.attrs), prelude=p.prelude)


def _retype_prog(p, ty, name, domain=None):
    rels = [Rel(r.name, [ty if t == I else t for t in r.types], r.lattice, r.ds, r.init) for r in p.rels]
    q = Program(name, rels, [Rule(list(r.heads), list(r.body)) for r in p.rules], attrs=list(p.attrs), prelude=p.prelude)
    if domain:
        q.domain = domain
    return q


def _all_vars(p):
    vs = set()
    for r in p.rules:
        for it in r.body:
            vs |= _item_vars(it)
        for h in r.heads:
            vs |= _item_vars(h)
    return sorted(vs)


def c06_variants(seed, per_base=6, bases=None):
    """syntactic variants of base programs: permuted rules / declarations / head clauses / independent body
    clauses, consistent renaming of variables and relations, change of the column type, injective renaming of
    the constants (function-free programs only)."""
    import itertools as _it
    rng = random.Random(seed)
    base = [p for p in c01_curated() if p.name in (bases or ("tc", "same_gen", "mutual3", "three_dyn", "join_cond2", "facts_multihead", "two_strata", "empty_rel",
                                                              "binder_before_join", "binder_first_clause", "join_repeat_second", "consts_repeats", "two_expr_clauses", "multihead_side", "reader_before_multihead", "reader_first_recursive_multihead"))]
    out = []
    adversarial = ["tuple", "before", "res", "timeout", "val", "row", "matching", "changed", "total", "delta", "rel_ind", "selection_tuple", "key", "v", "i"]
    for p in base:
        out.append(p)
        for k in range(per_base):
            kind = ["rules", "decls", "body", "rename_vars", "rename_rels", "heads"][k % 6]
            q = Program("%s__v%d_%s" % (p.name, k, kind), [Rel(r.name, list(r.types)) for r in p.rels],
                        [Rule(list(r.heads), list(r.body)) for r in p.rules])
            if kind == "rules":
                rng.shuffle(q.rules)
            elif kind == "decls":
                rng.shuffle(q.rels)
                q.relmap = {r.name: r for r in q.rels}
            elif kind == "heads":
                for r in q.rules:
                    if len(r.heads) > 1:
                        r.heads = list(reversed(r.heads))
                q.rules = list(reversed(q.rules))
            elif kind == "body":
                for r in q.rules:
                    # reverse maximal runs of plain clauses whose arguments are variables / wildcards / constants
                    run, newb = [], []
                    for it in r.body + [None]:
                        simple = isinstance(it, Clause) and all(isinstance(a_, (V, Wild, C)) for a_ in it.args)
                        if simple:
                            run.append(it)
                        else:
                            newb += list(reversed(run))
                            run = []
                            if it is not None:
                                newb.append(it)
                    r.body = newb
            elif kind == "rename_vars":
                vs = _all_vars(p)
                names = rng.sample(adversarial, len(vs)) if len(vs) <= len(adversarial) else ["n%d" % i for i in range(len(vs))]
                q = _rename_prog(p, dict(zip(vs, names)), {}, q.name)
            elif kind == "rename_rels":
                rn = {r.name: "%s_%s" % (rng.choice(["zz", "a0", "rel", "Tbl"]), r.name[::-1]) for r in p.rels}
                q = _rename_prog(p, {}, rn, q.name)
            out.append(q)
        # column type / constant renaming for function-free programs
        if p.name in ("tc", "same_gen", "mutual3"):
            out.append(_retype_prog(p, "u8", p.name + "__u8"))
            out.append(_retype_prog(p, "i64", p.name + "__i64_big", domain=[-7, 100000, 4000000000]))
            out.append(_retype_prog(p, "usize", p.name + "__usize", domain=[5, 3, 99]))
    return out


# ------------------------------------------------------------------------------------ C09 (packaging variants)
def _clone_prog(p, name, **attrs):
    q = Program(name, [Rel(r.name, list(r.types), r.lattice, r.ds, r.init, list(r.init_rows)) for r in p.rels],
                [Rule(list(r.heads), list(r.body)) for r in p.rules], macros=list(p.macros), attrs=list(p.attrs), prelude=p.prelude)
    for k_, v_ in attrs.items():
        setattr(q, k_, v_)
    return q


def c09_variants():
    """packaging variants of base programs; the oracle is always the model of the bare logical program"""
    out = []
    bases = {p.name: p for p in c01_curated() + c04_curated() + c03_curated()}
    for bn in ("tc", "two_strata", "facts_multihead", "agg_chain", "shortest_path"):
        b = bases[bn]
        out.append(_clone_prog(b, bn + "__base"))
        out.append(_clone_prog(b, bn + "__times", attrs=["measure_rule_times"]))
        q = _clone_prog(b, bn + "__rt_run")
        q.attrs = ["generate_run_timeout"]
        out.append(q)
        q = _clone_prog(b, bn + "__both")
        q.attrs = ["measure_rule_times", "generate_run_timeout"]
        out.append(q)
        nrules, nrels = len(b.rules), len(b.rels)
        for pos in ("first", "middle", "last"):
            inc = {"pos": pos, "rels": [r.name for r in b.rels[: max(1, nrels // 2)]], "rules": list(range(0, nrules, 2))}
            out.append(_clone_prog(b, "%s__inc_%s" % (bn, pos), include=inc))
        # everything inside the included source
        out.append(_clone_prog(b, bn + "__inc_all", include={"pos": "first", "rels": [r.name for r in b.rels], "rules": list(range(nrules))}))
    # include_source! together with inner attributes: the attribute must survive the re-invocation
    q = _clone_prog(bases["tc"], "tc__inc_rt", include={"pos": "first", "rels": ["edge"], "rules": [0]})
    q.attrs = ["generate_run_timeout", "measure_rule_times"]
    q.scenario = "timeout"
    out.append(q)
    # generic struct signature
    for bn in ("tc", "same_gen"):
        b = bases[bn]
        q = _clone_prog(b, bn + "__generic", type_params={"N": "i32"})
        q.sig = "pub struct Prog<N: Clone + Eq + std::hash::Hash>;"
        for r in q.rels:
            r.types = ["N" for _t in r.types]
        q.relmap = {r.name: r for r in q.rels}
        out.append(q)
    # split signature: struct declaration + impl signature with a where clause
    q = _clone_prog(bases["same_gen"], "same_gen__generic_split", type_params={"N": "i32"})
    q.sig = "pub struct Prog<N>;\n   impl<N> Prog<N> where N: Clone + Eq + std::hash::Hash;"
    for r in q.rels:
        r.types = ["N" for _t in r.types]
    q.relmap = {r.name: r for r in q.rels}
    out.append(q)
    # initialised relations in ascent!
    b = bases["tc"]
    q = _clone_prog(b, "tc__init")
    q.rels[0].init = "[(0, 1), (1, 2)].into_iter().collect()"
    q.rels[0].init_rows = [(0, 1), (1, 2)]
    q.relmap = {r.name: r for r in q.rels}
    out.append(q)
    q = _clone_prog(bases["two_strata"], "two_strata__init")
    q.rels[1].init = "[(2, 0)].into_iter().collect()"
    q.rels[1].init_rows = [(2, 0)]
    q.relmap = {r.name: r for r in q.rels}
    out.append(q)
    # an aggregate over an initialised relation
    q = _clone_prog(bases["agg_count_key"], "agg_count_key__init")
    q.rels[0].init = "[(0, 1), (0, 2), (1, 1)].into_iter().collect()"
    q.rels[0].init_rows = [(0, 1), (0, 2), (1, 1)]
    q.relmap = {r.name: r for r in q.rels}
    out.append(q)
    # a re-declared relation: the later declaration wins
    q = _clone_prog(b, "tc__redecl")
    q.rels = [Rel("edge", [I, I], init="[(0, 1), (0, 2)].into_iter().collect()", init_rows=[(0, 1), (0, 2)]), Rel("path", [I, I])] + \
        [Rel("edge", [I, I], init="[(1, 2)].into_iter().collect()", init_rows=[(1, 2)]), Rel("path", [I, I])]
    q.relmap = {r.name: r for r in q.rels}
    out.append(q)
    # a relation declared inside the included source AND re-declared by the includer after the include: the
    # later declaration (the includer's) wins, so the source must be pasted exactly where it is included
    q = _clone_prog(b, "tc__inc_redecl", include={"pos": "first", "rels": [], "rel_idx": [0], "rules": [0]})
    q.rels = [Rel("edge", [I, I], init="[(0, 1), (0, 2)].into_iter().collect()", init_rows=[(0, 1), (0, 2)]), Rel("path", [I, I]),
              Rel("edge", [I, I], init="[(1, 2)].into_iter().collect()", init_rows=[(1, 2)])]
    q.relmap = {r.name: r for r in q.rels}
    out.append(q)
    q = _clone_prog(b, "tc__inc_redecl_last", include={"pos": "last", "rels": [], "rel_idx": [2], "rules": [1]})
    q.rels = [Rel("edge", [I, I], init="[(0, 1), (0, 2)].into_iter().collect()", init_rows=[(0, 1), (0, 2)]), Rel("path", [I, I]),
              Rel("edge", [I, I], init="[(1, 2)].into_iter().collect()", init_rows=[(1, 2)])]
    q.relmap = {r.name: r for r in q.rels}
    out.append(q)
    # ascent_run! with captured locals (initialised relations and a captured flag)
    for flag in (True, False):
        q = Program("run_tc_%s" % ("refl" if flag else "plain"), [R("r", I, I, init="r_in"), R("tc", I, I)], [
            rule(H("tc", x, y), Cl("r", x, y)),
            rule(H("tc", x, z_), Cl("r", x, y), Cl("tc", y, z_)),
            rule([H("tc", x, x), H("tc", y, y)], If(V("reflexive")), Cl("r", x, y))], kind="ascent_run")
        q.locals = {"reflexive": flag}
        q.input_rels = ["r"]
        out.append(q)
    q = Program("run_two_inits", [R("aa", I, init="aa_in"), R("bb", I, I, init="bb_in"), R("cnt", "usize"), R("sm", I, I)], [
        rule(H("cnt", n), Agg(PV("n"), "count", [], "aa", [_])),
        rule(H("sm", x, V("s")), Cl("aa", x), Agg(PV("s"), "sum", ["y"], "bb", [x, y]))], kind="ascent_run")
    q.input_rels = ["aa", "bb"]
    out.append(q)
    # ascent_run! whose initialised relations are read only with every column bound (white list / black list)
    # or only derived into: nothing but their all-columns indices exists
    q = Program("run_init_full_index_only", [R("allowed", I, init="allowed_in"), R("blocked", I, init="blocked_in"), R("seen", I, I, init="seen_in"),
                                              R("ok", I), R("free", I)], [
        rule(H("ok", x), For(PV("x"), Rng(C(0), C(3))), Cl("allowed", x)),
        rule(H("free", x), For(PV("x"), Rng(C(0), C(3))), Neg("blocked", [x])),
        rule(H("seen", x, y), Cl("ok", x), Cl("free", y))], kind="ascent_run")
    q.input_rels = ["allowed", "blocked", "seen"]
    out.append(q)
    for bn in ("two_strata", "agg_chain", "mutual3"):
        b = bases[bn]
        q = _clone_prog(b, bn + "__ascent_run")
        q.kind = "ascent_run"
        edb = []
        heads = set(h.rel for r in q.rules for h in r.heads if r.body)
        for r in q.rels:
            if r.name not in heads:
                r.init = r.name + "_in"
                edb.append(r.name)
        q.input_rels = edb
        q.relmap = {r.name: r for r in q.rels}
        out.append(q)
    return out


def c14_lattice():
    """lattice programs for the interruption scenario (small: two run_timeout calls + run() are executed)"""
    P = []
    d, l = V("d"), V("l")
    p1 = Program("lat_sp_small", [R("edge", I, I), R("dist", I, DI, lattice=True)], [
        rule(H("dist", C(0), Ctor("Dual", C(0)))),
        rule(H("dist", y, Ctor("Dual", Bin("+", w, C(1)))), Cl("dist", x, Pat(PC("Dual", PV("w")))), Cl("edge", x, y))])
    P.append(p1)
    # a lattice computed in one stratum and *scanned* (non-key index) by a later recursive stratum
    p2 = Program("lat_scan_later", [R("s", I, I, I), R("m", I, I, I, lattice=True), R("lvl", I), R("st", I)], [
        rule(H("m", x, y, w), Cl("s", x, y, w)),
        rule(H("lvl", x), Cl("st", x)),
        rule(H("lvl", y), Cl("lvl", x), Cl("m", x, y, _))])
    p2.D = 3
    P.append(p2)
    return P


def v_():
    return V("v")


# ------------------------------------------------------------------------------------ random programs with aggregates / negation / lattices
def random_agg_programs(seed, count, prefix="ragg"):
    """a random positive base program plus 1-3 rules, in strictly higher strata, that aggregate or negate over it"""
    g = RandGen(seed, max_arity=2, max_body=2)
    rng = g.rng
    out = []
    for i in range(count):
        p = g.program("%s%d_%d" % (prefix, seed % 1000, i), nrel=rng.randint(2, 3), nrule=rng.randint(1, 3))
        base = list(p.rels)
        for j in range(rng.randint(1, 3)):
            src = rng.choice(base)          # relation the rule iterates
            tgt = rng.choice(base)          # relation aggregated / negated
            kind = rng.choice(["count", "sum", "min", "max", "not", "not"])
            sargs = [V("a%d" % c) for c in range(src.arity)]
            key = sargs[0]
            if kind == "not":
                targs = [key if c == 0 else (Wild() if rng.random() < 0.6 else C(rng.randint(0, 2))) for c in range(tgt.arity)]
                hr = R("t%d" % j, I)
                p.rels.append(hr)
                p.rules.append(Rule([Head(hr.name, [key])], [Clause(src.name, sargs), Neg(tgt.name, targs)]))
            elif kind == "count":
                use_key = rng.random() < 0.7
                targs = [(key if (c == 0 and use_key) else Wild()) for c in range(tgt.arity)]
                hr = R("t%d" % j, I, "usize")
                p.rels.append(hr)
                p.rules.append(Rule([Head(hr.name, [key, V("n")])], [Clause(src.name, sargs), Agg(PV("n"), "count", [], tgt.name, targs)]))
            else:
                if tgt.arity < 2:
                    targs, bound = [V("q")], ["q"]
                else:
                    targs, bound = [key, V("q")], ["q"]
                hr = R("t%d" % j, I, I)
                p.rels.append(hr)
                p.rules.append(Rule([Head(hr.name, [key, V("m")])], [Clause(src.name, sargs), Agg(PV("m"), kind, bound, tgt.name, targs)]))
        p.relmap = {r.name: r for r in p.rels}
        out.append(p)
    return out


def random_lattice_programs(seed, count, prefix="rlat"):
    """a random positive base program feeding a lattice that is propagated along a binary relation and read
    back through an upward-closed test"""
    g = RandGen(seed, max_arity=2, max_body=2)
    rng = g.rng
    out = []
    for i in range(count):
        p = g.program("%s%d_%d" % (prefix, seed % 1000, i), nrel=2, nrule=rng.randint(1, 2))
        bins = [r for r in p.rels if r.arity == 2]
        e = rng.choice(bins)
        dual = rng.random() < 0.5
        ty = DI if dual else I
        p.rels.append(R("lat", I, ty, lattice=True))
        mk = (lambda ex: Ctor("Dual", ex)) if dual else (lambda ex: ex)
        vpat = Pat(PC("Dual", PV("v"))) if dual else V("v")
        p.rules.append(Rule([Head("lat", [x, mk(y)])], [Clause(e.name, [x, y])]))
        step = rng.choice(["copy", "inc"])
        newv = V("v") if step == "copy" else Call("min", Bin("+", V("v"), C(1)), C(3))
        p.rules.append(Rule([Head("lat", [y, mk(newv)])], [Clause("lat", [x, vpat]), Clause(e.name, [x, y])]))
        p.rels.append(R("hi", I))
        cmpop = "<=" if dual else ">="
        p.rules.append(Rule([Head("hi", [x])], [Clause("lat", [x, vpat]), If(Bin(cmpop, V("v"), C(1)))]))
        if rng.random() < 0.5:
            p.rules.append(Rule([Head(e.name, [x, x])], [Clause("hi", [x])]))
        p.relmap = {r.name: r for r in p.rels}
        out.append(p)
    return out


# ------------------------------------------------------------------------------------ random programs with in-program macros
def random_macro_programs(seed, count, prefix="rmac"):
    """random programs built from random in-program macros.  Macro-locals are spelled like the variables of the
    rules that invoke them (and like each other's fresh-name candidates: x / x1 / x_), macros are invoked
    several times per rule, nested, and inside call-site disjunctions; the reference meaning is the hand
    expansion with fresh locals per invocation (lang.expand_macros)."""
    rng = random.Random(seed)
    out = []
    while len(out) < count:
        p = _rand_macro_prog(rng, "%s%d_%d" % (prefix, seed % 1000, len(out)))
        core = core_rules(p)
        # keep the expansion small enough to execute symbolically in seconds
        if len(core) <= 10 and all(sum(isinstance(it, Clause) for it in b) <= 6 for _h, b in core) \
                and sum(1 for h, b in core if h.rel == "g" and sum(isinstance(it, Clause) for it in b) > 4) == 0:
            out.append(p)
    return out


def _rand_macro_prog(rng, name):
    LOCALS = ["x", "y", "z", "x1", "x_", "mid"]
    rels = [R("e", I, I), R("g", I, I), R("u", I)]
    macros = []
    for mi in range(rng.randint(1, 3)):
        two = rng.random() < 0.75
        params = [("a", "ident"), ("b", "ident")] if two else [("a", "ident")]
        locs = rng.sample(LOCALS, rng.choice([1, 1, 2]))
        chain = ["a"] + locs + (["b"] if two else [])
        body = [Cl(rng.choice(["e", "g"]), V(s), V(t_)) for s, t_ in zip(chain, chain[1:])]
        r = rng.random()
        if r < 0.25:
            op = rng.choice(["!=", "<", "<="])
            body.append(If(Bin(op, V(locs[0]), C(rng.randint(1, 2) if op == "<" else rng.randint(0, 2)))))
        elif r < 0.4 and two:
            body.append(If(Bin("!=", V("a"), V("b"))))
        elif r < 0.55:
            body.append(Let(PV("t"), Bin("%", Bin("+", V(locs[-1]), C(1)), C(3))))
            body.append(Cl("u", V("t")))
        elif r < 0.75 and macros:
            prev = rng.choice(macros)
            args = [V(locs[0])] + ([V(rng.choice(["a"] + locs[1:]))] if len(prev.params) > 1 else [])
            if len(args) == 2 and args[0].n == args[1].n:
                args[1] = V("a")
            body.append(MacroCall(prev.name, args))
        elif r < 0.9:
            first = body[0]
            other = "g" if first.rel == "e" else "e"
            body[0] = Disj([[first], [Clause(other, list(first.args)), If(Matches(V(first.args[1].n), [0, 1]))]])
        macros.append(MacroDef("m%d" % mi, params, body))
    rules = []
    POOL = ["x", "y", "z", "w"]
    for ri in range(rng.randint(2, 4)):
        nlink = rng.choice([1, 2, 2, 3])
        vs = POOL[:nlink + 1]
        rng.shuffle(vs)
        body = []
        for k in range(nlink):
            s, t_ = V(vs[k]), V(vs[k + 1])
            two_ms = [m for m in macros if len(m.params) == 2]
            p = rng.random()
            if two_ms and p < 0.55:
                m = rng.choice(two_ms)
                body.append(MacroCall(m.name, [s, t_]))
            elif two_ms and p < 0.75 and not any(isinstance(it, Disj) for it in body):
                m = rng.choice(two_ms)
                alt = [MacroCall(m.name, [s, t_])]
                cl = [Cl(rng.choice(["e", "g"]), s, t_)]
                body.append(Disj([alt, cl] if rng.random() < 0.5 else [cl, alt]))
            else:
                body.append(Cl(rng.choice(["e", "g"]), s, t_))
            one_ms = [m for m in macros if len(m.params) == 1]
            if one_ms and rng.random() < 0.4:
                body.append(MacroCall(rng.choice(one_ms).name, [rng.choice([s, t_])]))
        if rng.random() < 0.3:
            body.append(If(Bin(rng.choice(["!=", "<"]), V(vs[0]), V(vs[-1]))))
        if not any(isinstance(it, MacroCall) or (isinstance(it, Disj)) for it in body):
            m = rng.choice(macros)
            body.append(MacroCall(m.name, [V(vs[-1]), V(vs[0])][:len(m.params)]))
        if rng.random() < 0.3:
            head = H("g", V(vs[0]), V(vs[-1]))          # recursion through the macros
        else:
            rels.append(R("o%d" % ri, I, I))
            head = H("o%d" % ri, V(vs[0]), V(vs[-1]))
        rules.append(rule(head, *body))
    return Program(name, rels, rules, macros=macros)
