"""Corpus: curated programs per property + a seeded random generator over the rule language.
Every program is a lang.Program (logical form); the surface text is printed from it."""
import random
from .lang import *

I = "i32"


def v(*names):
    return [V(n) for n in names]


x, y, z_, w, u, t, a, b, c, n, k = v("x", "y", "z", "w", "u", "t", "a", "b", "c", "n", "k")


def R(name, *types, **kw):
    return Rel(name, list(types), **kw)


def rule(head, *body):
    heads = head if isinstance(head, list) else [head]
    return Rule(heads, list(body))


def H(rel, *args):
    return Head(rel, list(args))


def Cl(rel, *args):
    return Clause(rel, list(args))


_ = Wild()


# ------------------------------------------------------------------------------------ C01
def c01_curated():
    P = []
    P.append(Program("tc", [R("edge", I, I), R("path", I, I)], [
        rule(H("path", x, y), Cl("edge", x, y)),
        rule(H("path", x, z_), Cl("path", x, y), Cl("path", y, z_))]))
    P.append(Program("tc_linear", [R("edge", I, I), R("path", I, I)], [
        rule(H("path", x, y), Cl("edge", x, y)),
        rule(H("path", x, z_), Cl("edge", x, y), Cl("path", y, z_))]))
    P.append(Program("tc_reverse", [R("edge", I, I), R("path", I, I)], [
        rule(H("path", x, y), Cl("edge", x, y)),
        rule(H("path", x, z_), Cl("path", y, z_), Cl("edge", x, y))]))
    P.append(Program("same_gen", [R("par", I, I), R("sg", I, I)], [
        rule(H("sg", x, y), Cl("par", x, z_), Cl("par", y, z_)),
        rule(H("sg", x, y), Cl("par", x, a), Cl("sg", a, b), Cl("par", y, b))]))
    P.append(Program("mutual2", [R("e", I, I), R("odd", I, I), R("even", I, I)], [
        rule(H("odd", x, y), Cl("e", x, y)),
        rule(H("even", x, z_), Cl("odd", x, y), Cl("e", y, z_)),
        rule(H("odd", x, z_), Cl("even", x, y), Cl("e", y, z_))]))
    P.append(Program("mutual3", [R("s", I), R("p", I), R("q", I), R("r", I), R("nx", I, I)], [
        rule(H("p", x), Cl("s", x)),
        rule(H("q", y), Cl("p", x), Cl("nx", x, y)),
        rule(H("r", y), Cl("q", x), Cl("nx", x, y)),
        rule(H("p", y), Cl("r", x), Cl("nx", x, y))]))
    P.append(Program("three_dyn", [R("e", I, I), R("p", I, I)], [
        rule(H("p", x, y), Cl("e", x, y)),
        rule(H("p", x, w), Cl("p", x, y), Cl("p", y, z_), Cl("p", z_, w))]))
    P.append(Program("join_cond2", [R("e", I, I), R("f", I, I), R("g", I, I)], [
        rule(H("g", x, z_), Cl("e", x, y), Cl("f", y, z_), If(Bin("!=", x, z_))),
        rule(H("g", x, z_), Cl("g", x, y), Cl("g", y, z_), If(Bin("<", x, z_)))]))
    P.append(Program("consts_repeats", [R("e", I, I), R("f", I, I, I), R("g", I), R("h", I, I)], [
        rule(H("g", x), Cl("e", x, x)),
        rule(H("g", x), Cl("e", C(1), x)),
        rule(H("h", x, y), Cl("e", x, y), Cl("f", y, y, x)),
        rule(H("h", x, C(2)), Cl("f", x, C(0), _), Cl("e", _, x)),
        rule(H("h", y, x), Cl("h", x, y), Cl("e", y, Bin("+", x, C(0))))]))
    P.append(Program("generators", [R("s", I), R("r", I, I), R("q", I, I)], [
        rule(H("r", x, y), For(PV("x"), Rng(C(0), C(3))), Cl("s", x), Let(PV("y"), Bin("%", Bin("+", x, C(1)), C(3)))),
        rule(H("q", x, y), Cl("r", x, z_), For(PV("y"), Rng(C(0), z_)), If(Bin("!=", x, y))),
        rule(H("q", y, x), Cl("q", x, y), Cl("s", y))]))
    P.append(Program("facts_multihead", [R("a", I), R("b", I, I), R("c", I)], [
        rule(H("a", C(1))),
        rule([H("b", C(0), C(1)), H("b", C(1), C(2))]),
        rule([H("c", x), H("a", y)], Cl("b", x, y)),
        rule(H("b", x, x), Cl("a", x), Cl("c", x))]))
    P.append(Program("empty_rel", [R("e", I, I), R("never", I, I), R("p", I, I), R("q", I, I)], [
        rule(H("p", x, y), Cl("e", x, y)),
        rule(H("p", x, z_), Cl("p", x, y), Cl("never", y, z_)),
        rule(H("q", x, z_), Cl("never", x, y), Cl("p", y, z_)),
        rule(H("q", x, y), Cl("p", x, y), Cl("p", y, x))]))
    P.append(Program("two_strata", [R("e", I, I), R("p", I, I), R("q", I, I), R("top", I)], [
        rule(H("p", x, y), Cl("e", x, y)),
        rule(H("p", x, z_), Cl("p", x, y), Cl("e", y, z_)),
        rule(H("q", x, y), Cl("p", x, y), Cl("p", y, x)),
        rule(H("q", x, z_), Cl("q", x, y), Cl("p", y, z_)),
        rule(H("top", x), Cl("q", x, _), Cl("p", _, x))]))
    P.append(Program("iflet_let", [R("e", I, I), R("o", "Option<i32>"), R("r", I, I)], [
        rule(H("r", x, y), Cl("o", Pat(PC("Some", PV("x")))), Cl("e", x, y)),
        rule(H("r", y, zz()), Cl("r", x, y), Let(PV("zz"), Bin("%", Bin("+", y, C(1)), C(3))), If(Bin("!=", zz(), x))),
        rule(H("o", Ctor("Some", y)), Cl("r", x, y), If(Bin("==", x, C(0))))]))
    P.append(Program("arity3", [R("t", I, I, I), R("s", I, I), R("u", I, I, I)], [
        rule(H("u", x, y, z_), Cl("t", x, y, z_)),
        rule(H("u", x, z_, y), Cl("u", x, y, z_), Cl("s", y, z_)),
        rule(H("s", x, z_), Cl("u", x, _, z_), Cl("s", z_, x))]))
    return P


def zz():
    return V("zz")


# ------------------------------------------------------------------------------------ random programs
class RandGen:
    """well-formed by construction: grounded heads, no shadowing, positive programs"""

    def __init__(self, seed):
        self.rng = random.Random(seed)

    def program(self, name, nrel=None, nrule=None):
        rng = self.rng
        nrel = nrel or rng.randint(2, 4)
        rels = []
        for i in range(nrel):
            ar = rng.choice([1, 2, 2, 2, 3]) if i > 0 else 2
            rels.append(R("r%d" % i, *([I] * ar)))
        rules = []
        nrule = nrule or rng.randint(2, 5)
        for _i in range(nrule):
            rules.append(self.rule(rels))
        return Program(name, rels, rules)

    def rule(self, rels):
        rng = self.rng
        nb = rng.choice([1, 2, 2, 3])
        vars_pool = ["x", "y", "z", "w", "u"]
        bound = []
        body = []
        for _i in range(nb):
            r = rng.choice(rels)
            args = []
            for _j in range(r.arity):
                p = rng.random()
                if bound and p < 0.35:
                    args.append(V(rng.choice(bound)))
                elif p < 0.45:
                    args.append(C(rng.randint(0, 2)))
                elif p < 0.52:
                    args.append(Wild())
                elif bound and p < 0.58:
                    args.append(Bin("%", Bin("+", V(rng.choice(bound)), C(1)), C(3)))
                else:
                    free = [q for q in vars_pool if q not in bound]
                    if free:
                        nm = rng.choice(free[:2])
                        # a fresh variable used twice inside one clause is a repeated variable: allowed
                        args.append(V(nm))
                        newly = nm
                    else:
                        args.append(V(rng.choice(bound)))
                        newly = None
            for a_ in args:
                if isinstance(a_, V) and a_.n not in bound:
                    bound.append(a_.n)
            body.append(Clause(r.name, args))
            if bound and rng.random() < 0.25:
                va, vb = V(rng.choice(bound)), (V(rng.choice(bound)) if rng.random() < 0.6 else C(rng.randint(0, 2)))
                body.append(If(Bin(rng.choice(["!=", "<", "<=", "=="]), va, vb)))
            elif bound and rng.random() < 0.12:
                nm = "l%d" % len(bound)
                body.append(Let(PV(nm), Bin("%", Bin("+", V(rng.choice(bound)), C(rng.randint(1, 2))), C(3))))
                bound.append(nm)
        hr = rng.choice(rels)
        hargs = []
        for _j in range(hr.arity):
            if bound and rng.random() < 0.85:
                hargs.append(V(rng.choice(bound)))
            else:
                hargs.append(C(rng.randint(0, 2)))
        return Rule([Head(hr.name, hargs)], body)


def random_programs(seed, count, prefix="rnd"):
    g = RandGen(seed)
    return [g.program("%s%d_%d" % (prefix, seed % 1000, i)) for i in range(count)]
