"""The logical program language of the corpus: AST, printer to ascent surface syntax, and the
*reference semantics* (the oracle): stratified least model by naive iteration.

The reference evaluator is generic over the boolean algebra of sym.py: with Python bools it is a
concrete Datalog evaluator (used for native replay comparison), with z3 terms it yields, for every
candidate tuple, the condition (over the input-presence variables) under which the tuple is in the
least model.  It is written from the documented meaning of the surface forms (README / MACROS.MD),
never from the generated code.
"""
import itertools
from .sym import *
from .values import *
from fractions import Fraction


# ---------------------------------------------------------------- expressions
class Ex:
    pass


class V(Ex):  # variable
    def __init__(s, n):
        s.n = n

    def rs(s, vk):
        return ("*" + s.n) if vk.get(s.n) == "ref" else s.n

    def ev(s, env):
        return env[s.n]

    def vars(s):
        return {s.n}

    def sub(s, m):
        return m.get(s.n, s) if not isinstance(m.get(s.n), str) else V(m[s.n])


class C(Ex):  # constant
    def __init__(s, v, ty=None):
        s.v, s.ty = v, ty

    def rs(s, vk):
        return rust_repr(s.v)

    def ev(s, env):
        return s.v

    def vars(s):
        return set()

    def sub(s, m):
        return s


class Bin(Ex):
    def __init__(s, op, a, b):
        s.op, s.a, s.b = op, a, b

    def rs(s, vk):
        return "(%s %s %s)" % (s.a.rs(vk), s.op, s.b.rs(vk))

    def ev(s, env):
        a, b = s.a.ev(env), s.b.ev(env)
        op = s.op
        if op == "+":
            return a + b
        if op == "-":
            return a - b
        if op == "*":
            return a * b
        if op == "%":
            return a % b
        if op == "==":
            return a == b
        if op == "!=":
            return a != b
        if op == "<":
            return a < b
        if op == "<=":
            return a <= b
        if op == ">":
            return a > b
        if op == ">=":
            return a >= b
        if op == "&&":
            return a and b
        if op == "||":
            return a or b
        raise Unsupported("op " + op)

    def vars(s):
        return s.a.vars() | s.b.vars()

    def sub(s, m):
        return Bin(s.op, s.a.sub(m), s.b.sub(m))


class Ctor(Ex):  # Some(e), Dual(e), (e1, e2) with name None
    def __init__(s, name, *args):
        s.name, s.args = name, args

    def rs(s, vk):
        inner = ", ".join(a.rs(vk) for a in s.args)
        if s.name is None:
            return "(%s%s)" % (inner, "," if len(s.args) == 1 else "")
        if not s.args:
            return s.name
        return "%s(%s)" % (s.name, inner)

    def ev(s, env):
        vals = [a.ev(env) for a in s.args]
        if s.name is None:
            return tuple(vals)
        return TS(s.name.split("::")[-1], *vals)

    def vars(s):
        r = set()
        for a in s.args:
            r |= a.vars()
        return r

    def sub(s, m):
        return Ctor(s.name, *[a.sub(m) for a in s.args])


class Fld(Ex):  # e.0
    def __init__(s, e, i):
        s.e, s.i = e, i

    def rs(s, vk):
        inner = s.e.rs(vk)
        if inner.startswith("*"):
            inner = inner[1:]
        return "%s.%d" % (inner, s.i)

    def ev(s, env):
        v = s.e.ev(env)
        return v.fields[s.i] if isinstance(v, TS) else v[s.i]

    def vars(s):
        return s.e.vars()

    def sub(s, m):
        return Fld(s.e.sub(m), s.i)


class Rng(Ex):  # a..b
    def __init__(s, a, b):
        s.a, s.b = a, b

    def rs(s, vk):
        return "(%s..%s)" % (s.a.rs(vk), s.b.rs(vk))

    def ev(s, env):
        return list(range(s.a.ev(env), s.b.ev(env)))

    def vars(s):
        return s.a.vars() | s.b.vars()

    def sub(s, m):
        return Rng(s.a.sub(m), s.b.sub(m))


class Call(Ex):  # min(a,b) / max(a,b) rendered as method calls on values
    def __init__(s, f, a, b):
        s.f, s.a, s.b = f, a, b

    def rs(s, vk):
        return "(%s).%s(%s)" % (s.a.rs(vk), s.f, s.b.rs(vk))

    def ev(s, env):
        return {"min": min, "max": max}[s.f](s.a.ev(env), s.b.ev(env))

    def vars(s):
        return s.a.vars() | s.b.vars()

    def sub(s, m):
        return Call(s.f, s.a.sub(m), s.b.sub(m))


class Matches(Ex):  # matches!(e, c1 | c2 | ...)  — a Rust macro call inside a condition
    def __init__(s, e, consts):
        s.e, s.consts = e, consts

    def rs(s, vk):
        inner = s.e.rs(vk)
        if inner.startswith("*"):
            inner = inner[1:]
        return "matches!(%s, %s)" % (inner, " | ".join(rust_repr(c) for c in s.consts))

    def ev(s, env):
        return s.e.ev(env) in s.consts

    def vars(s):
        return s.e.vars()

    def sub(s, m):
        return Matches(s.e.sub(m), s.consts)


class Blk(Ex):  # { let name = init; body }  — a block expression re-binding a name from its own previous value
    def __init__(s, name, init, body):
        s.name, s.init, s.body = name, init, body

    def rs(s, vk):
        inner = {k: v for k, v in vk.items() if k != s.name}
        return "{ let %s = %s; %s }" % (s.name, s.init.rs(vk), s.body.rs(inner))

    def ev(s, env):
        e2 = dict(env)
        e2[s.name] = s.init.ev(env)
        return s.body.ev(e2)

    def vars(s):
        return s.init.vars() | (s.body.vars() - {s.name})

    def sub(s, m):
        return Blk(s.name, s.init.sub(m), s.body.sub({k: v for k, v in m.items() if k != s.name}))


class IfLetEx(Ex):  # if let <pat> = <e> { <then> } else { <els> }  — the pattern variables are local to <then>
    def __init__(s, p, e, then, els):
        s.p, s.e, s.then, s.els = p, e, then, els

    def rs(s, vk):
        scrut = s.e.rs(vk)
        if scrut.startswith("*"):
            scrut = scrut[1:]   # matched through the reference (default binding modes): pattern variables are references
        vk2 = dict(vk)
        for n in s.p.vars():
            vk2[n] = "ref"
        return "if let %s = %s { %s } else { %s }" % (s.p.rs(), scrut, s.then.rs(vk2), s.els.rs(vk))

    def ev(s, env):
        e2 = dict(env)
        if s.p.match(s.e.ev(env), e2):
            return s.then.ev(e2)
        return s.els.ev(env)

    def vars(s):
        return s.e.vars() | (s.then.vars() - set(s.p.vars())) | s.els.vars()

    def sub(s, m):
        m2 = {k: v for k, v in m.items() if k not in s.p.vars()}
        return IfLetEx(s.p, s.e.sub(m), s.then.sub(m2), s.els.sub(m))


# patterns (for ?pat arguments, if let, let, for)
class PV:  # binds a variable
    def __init__(s, n):
        s.n = n

    def rs(s):
        return s.n

    def match(s, v, env):
        env[s.n] = v
        return True

    def vars(s):
        return [s.n]

    def sub(s, m):
        return PV(m.get(s.n, s.n)) if isinstance(m.get(s.n, s.n), str) else s


class PW:
    def rs(s):
        return "_"

    def match(s, v, env):
        return True

    def vars(s):
        return []

    def sub(s, m):
        return s


class PC:  # constructor pattern: Some(p), Dual(p), tuple (name None), None
    def __init__(s, name, *ps):
        s.name, s.ps = name, ps

    def rs(s):
        inner = ", ".join(p.rs() for p in s.ps)
        if s.name is None:
            return "(%s%s)" % (inner, "," if len(s.ps) == 1 else "")
        if not s.ps:
            return s.name
        return "%s(%s)" % (s.name, inner)

    def match(s, v, env):
        if s.name is None:
            return all(p.match(x, env) for p, x in zip(s.ps, v))
        if not isinstance(v, TS) or v.name != s.name:
            return False
        return all(p.match(x, env) for p, x in zip(s.ps, v.fields))

    def vars(s):
        r = []
        for p in s.ps:
            r += p.vars()
        return r

    def sub(s, m):
        return PC(s.name, *[p.sub(m) for p in s.ps])


class PRef:  # &pattern (matches through a reference)
    def __init__(s, p):
        s.p = p

    def rs(s):
        return "&" + s.p.rs()

    def match(s, v, env):
        return s.p.match(v, env)

    def vars(s):
        return s.p.vars()

    def sub(s, m):
        return PRef(s.p.sub(m))


class ArrIter(Ex):  # [c1, c2, ..].iter()  — an iterator over references to constants
    def __init__(s, consts):
        s.consts = consts

    def rs(s, vk):
        return "[%s].iter()" % ", ".join(rust_repr(c) for c in s.consts)

    def ev(s, env):
        return list(s.consts)

    def vars(s):
        return set()

    def sub(s, m):
        return s


class RefOf(Ex):  # &expr
    def __init__(s, e):
        s.e = e

    def rs(s, vk):
        return "&" + s.e.rs(vk)

    def ev(s, env):
        return s.e.ev(env)

    def vars(s):
        return s.e.vars()

    def sub(s, m):
        return RefOf(s.e.sub(m))


class PL:  # literal pattern
    def __init__(s, v):
        s.v = v

    def rs(s):
        return rust_repr(s.v)

    def match(s, v, env):
        return v == s.v

    def vars(s):
        return []

    def sub(s, m):
        return s


# ---------------------------------------------------------------- program AST
class Rel:
    def __init__(s, name, types, lattice=False, ds=None, init=None, init_rows=None):
        s.name, s.types, s.lattice, s.ds, s.init = name, types, lattice, ds, init
        s.init_rows = init_rows or []  # facts the initialiser expression contributes (reference semantics)

    @property
    def arity(s):
        return len(s.types)


class Wild:
    pass


class Pat:  # ?pattern argument
    def __init__(s, p):
        s.p = p


class Clause:
    def __init__(s, rel, args, conds=None):
        s.rel, s.args = rel, args  # args: V | Wild | Ex | Pat

    def sub(s, m):
        return Clause(s.rel, [_sub_arg(a, m) for a in s.args])


class Neg:
    def __init__(s, rel, args):
        s.rel, s.args = rel, args

    def sub(s, m):
        return Neg(s.rel, [_sub_arg(a, m) for a in s.args])


class Agg:
    def __init__(s, result_pat, agg, bound, rel, args):
        s.result_pat, s.agg, s.bound, s.rel, s.args = result_pat, agg, bound, rel, args

    def sub(s, m):
        return Agg(s.result_pat.sub(m), s.agg, [m.get(b, b) if isinstance(m.get(b, b), str) else b for b in s.bound], s.rel,
                   [_sub_arg(a, m) for a in s.args])


class If:
    def __init__(s, e):
        s.e = e

    def sub(s, m):
        return If(s.e.sub(m))


class IfLet:
    def __init__(s, p, e):
        s.p, s.e = p, e

    def sub(s, m):
        return IfLet(s.p.sub(m), s.e.sub(m))


class Let:
    def __init__(s, p, e):
        s.p, s.e = p, e

    def sub(s, m):
        return Let(s.p.sub(m), s.e.sub(m))


class For:
    def __init__(s, p, e):
        s.p, s.e = p, e

    def sub(s, m):
        return For(s.p.sub(m), s.e.sub(m))


class Disj:
    def __init__(s, alts):
        s.alts = alts  # list of lists of body items

    def sub(s, m):
        return Disj([[it.sub(m) for it in alt] for alt in s.alts])


class MacroCall:
    def __init__(s, name, args):
        s.name, s.args = name, args  # args: V | Ex

    def sub(s, m):
        return MacroCall(s.name, [_sub_arg(a, m) for a in s.args])


class MacroDef:
    def __init__(s, name, params, body, head=False):
        s.name, s.params, s.body, s.head = name, params, body, head  # params: [(name, 'ident'|'expr')]


class Head:
    def __init__(s, rel, args):
        s.rel, s.args = rel, args

    def sub(s, m):
        return Head(s.rel, [_sub_arg(a, m) for a in s.args])


class Rule:
    def __init__(s, heads, body):
        s.heads, s.body = heads, body


class Program:
    def __init__(s, name, rels, rules, macros=(), attrs=(), includes=(), sig=None, kind="ascent", prelude=""):
        s.name, s.rels, s.rules, s.macros, s.attrs = name, list(rels), list(rules), list(macros), list(attrs)
        s.sig, s.kind, s.prelude = sig, kind, prelude
        s.relmap = {}
        for r in s.rels:
            s.relmap[r.name] = r  # a later declaration of the same name wins


def _sub_arg(a, m):
    if isinstance(a, Wild):
        return a
    if isinstance(a, Pat):
        return Pat(a.p.sub(m))
    r = a.sub(m)
    return r


# ---------------------------------------------------------------- printer
def _vk_after(items, vk):
    """variable kinds ('ref' for clause-bound, 'val' for let/for/agg-bound) after body items"""
    vk = dict(vk)
    for it in items:
        if isinstance(it, Clause):
            for a in it.args:
                if isinstance(a, V) and a.n not in vk:
                    vk[a.n] = "ref"
                elif isinstance(a, Pat):
                    for n in a.p.vars():
                        vk.setdefault(n, "ref")
        elif isinstance(it, (Let, For, IfLet)):
            for n in it.p.vars():
                vk.setdefault(n, "val")
        elif isinstance(it, Agg):
            for n in it.result_pat.vars():
                vk.setdefault(n, "val")
        elif isinstance(it, Disj):
            for alt in it.alts:
                vk = _vk_after(alt, vk)
        elif isinstance(it, MacroCall):
            for a in it.args:
                if isinstance(a, V):
                    vk.setdefault(a.n, "ref")
    return vk


def arg_rs(a, vk, in_head=False):
    if isinstance(a, Wild):
        return "_"
    if isinstance(a, Pat):
        return "?" + a.p.rs()
    if isinstance(a, V):
        return a.n
    return a.rs(vk)


def items_rs(items, vk):
    out = []
    for it in items:
        if isinstance(it, Clause):
            out.append("%s(%s)" % (it.rel, ", ".join(arg_rs(a, vk) for a in it.args)))
        elif isinstance(it, Neg):
            out.append("!%s(%s)" % (it.rel, ", ".join(arg_rs(a, vk) for a in it.args)))
        elif isinstance(it, Agg):
            out.append("agg %s = %s(%s) in %s(%s)" % (it.result_pat.rs(), it.agg, ", ".join(it.bound), it.rel,
                                                     ", ".join(arg_rs(a, vk) for a in it.args)))
        elif isinstance(it, If):
            out.append("if " + it.e.rs(vk))
        elif isinstance(it, IfLet):
            rhs = it.e.rs(vk)
            if isinstance(it.p, PRef) and rhs.startswith("*"):
                rhs = rhs[1:]   # a reference pattern matches the reference itself
            out.append("if let %s = %s" % (it.p.rs(), rhs))
        elif isinstance(it, Let):
            out.append("let %s = %s" % (it.p.rs(), it.e.rs(vk)))
        elif isinstance(it, For):
            out.append("for %s in %s" % (it.p.rs(), it.e.rs(vk)))
        elif isinstance(it, Disj):
            def alt_rs(alt):
                txt = items_rs(alt, vk)
                # an alternative ending in a condition is wrapped in its own group: `if c | q(..)` would parse as an expression
                if alt and isinstance(alt[-1], (If, IfLet, Let, For)):
                    return "(" + txt + ")"
                return txt
            out.append("(" + " | ".join(alt_rs(alt) for alt in it.alts) + ")")
        elif isinstance(it, MacroCall):
            out.append("%s!(%s)" % (it.name, ", ".join(arg_rs(a, vk) for a in it.args)))
        else:
            raise Unsupported("print item %r" % it)
        vk = _vk_after([it], vk)
    return ", ".join(out)


def rule_rs(r):
    vk = _vk_after(r.body, {})
    heads = []
    for h in r.heads:
        if isinstance(h, MacroCall):
            heads.append("%s!(%s)" % (h.name, ", ".join(arg_rs(a, vk) for a in h.args)))
        else:
            heads.append("%s(%s)" % (h.rel, ", ".join(arg_rs(a, vk, True) for a in h.args)))
    hs = ", ".join(heads)
    if not r.body:
        return hs + ";"
    return "%s <-- %s;" % (hs, items_rs(r.body, {}))


def macro_rs(m):
    params = ", ".join("$%s: %s" % (n, k) for n, k in m.params)
    vk = _vk_after(m.body, {n: "ref" for n, k in m.params})

    def dollar(txt):
        import re
        for n, k in m.params:
            txt = re.sub(r"(?<![\w$])\*?%s(?!\w)" % n, "$" + n, txt)
        return txt
    if m.head:
        body = ", ".join("%s(%s)" % (h.rel, ", ".join(arg_rs(a, vk) for a in h.args)) for h in m.body)
    else:
        body = items_rs(m.body, {n: "ref" for n, k in m.params})
    return "macro %s(%s) { %s }" % (m.name, params, dollar(body))


def rel_rs(r):
    kw = "lattice" if r.lattice else "relation"
    ds = ("#[ds(%s)]\n   " % r.ds) if r.ds else ""
    init = (" = %s" % r.init) if r.init else ""
    return "%s%s %s(%s)%s;" % (ds, kw, r.name, ", ".join(r.types), init)


def program_rs(p, struct_decl=None):
    main, _src = program_parts(p, struct_decl)
    return "\n   ".join(main)


def program_parts(p, struct_decl=None):
    """-> (lines of the ascent!{} body, lines of the ascent_source!{} block or None).
    p.include = {"pos": "first"|"middle"|"last", "rels": [names], "rules": [indices]} moves the listed
    declarations / rules into an ascent_source! block that is pulled in with include_source!."""
    head = []
    for a in p.attrs:
        head.append("#![%s]" % a)
    if p.sig:
        head.append(p.sig)
    elif struct_decl:
        head.append(struct_decl)
    inc = getattr(p, "include", None)
    body, src = [], []
    for i, r in enumerate(p.rels):
        # inc["rel_idx"] (positions in p.rels) takes precedence over inc["rels"] (names): needed when a relation is
        # declared on both sides of the include
        moved = inc and ((i in inc["rel_idx"]) if "rel_idx" in inc else (r.name in inc["rels"]))
        (src if moved else body).append(rel_rs(r))
    for m in p.macros:
        body.append(macro_rs(m))
    for i, r in enumerate(p.rules):
        (src if inc and i in inc["rules"] else body).append(rule_rs(r))
    if inc:
        line = "include_source!(srcs::part_%s);" % p.name
        pos = {"first": 0, "middle": len(body) // 2, "last": len(body)}[inc["pos"]]
        body = body[:pos] + [line] + body[pos:]
    return head + body, (src if inc else None)


# ---------------------------------------------------------------- reference desugaring (documented meaning)
class Gensym:
    def __init__(s):
        s.n = 0

    def new(s, base):
        s.n += 1
        return "%s__m%d" % (base, s.n)


def expand_macros(items, macros, gs, depth=0):
    """in-program macros: body pasted at the call site, parameters substituted, identifiers introduced
    by the macro body fresh per invocation (MACROS.MD)."""
    if depth > 20:
        raise Unsupported("macro recursion")
    out = []
    for it in items:
        if isinstance(it, MacroCall):
            md = macros[it.name]
            m = {}
            for (pn, pk), a in zip(md.params, it.args):
                m[pn] = a.n if (isinstance(a, V) and pk == "ident") else a
            params = {pn for pn, _ in md.params}
            local = set()
            for bi in md.body:
                local |= _item_vars(bi)
            for lv in sorted(local - params):
                m[lv] = gs.new(lv)
            body = [bi.sub(_expr_map(m)) for bi in md.body]
            out += expand_macros(body, macros, gs, depth + 1)
        elif isinstance(it, Disj):
            out.append(Disj([expand_macros(alt, macros, gs, depth) for alt in it.alts]))
        else:
            out.append(it)
    return out


def _expr_map(m):
    """substitution map usable by .sub(): names -> str (rename) or Ex (replace)"""
    return m


def _item_vars(it):
    if isinstance(it, (Clause, Neg)):
        r = set()
        for a in it.args:
            if isinstance(a, Pat):
                r |= set(a.p.vars())
            elif isinstance(a, Ex):
                r |= a.vars()
        return r
    if isinstance(it, Head):
        r = set()
        for a in it.args:
            if isinstance(a, Ex):
                r |= a.vars()
        return r
    if isinstance(it, Agg):
        r = set(it.result_pat.vars()) | set(it.bound)
        for a in it.args:
            if isinstance(a, Ex):
                r |= a.vars()
        return r
    if isinstance(it, If):
        return it.e.vars()
    if isinstance(it, (IfLet, Let, For)):
        return set(it.p.vars()) | it.e.vars()
    if isinstance(it, Disj):
        r = set()
        for alt in it.alts:
            for x in alt:
                r |= _item_vars(x)
        return r
    if isinstance(it, MacroCall):
        r = set()
        for a in it.args:
            if isinstance(a, Ex):
                r |= a.vars()
        return r
    return set()


def expand_disjunctions(items):
    """-> list of item lists: one per choice of a disjunct from every disjunction"""
    res = [[]]
    for it in items:
        if isinstance(it, Disj):
            alts = []
            for alt in it.alts:
                alts += expand_disjunctions(alt)
            res = [r + a for r in res for a in alts]
        else:
            res = [r + [it] for r in res]
    return res


def core_rules(p):
    """the documented core expansion: list of (head: Head, body: [core items])"""
    macros = {m.name: m for m in p.macros}
    out = []
    for r in p.rules:
        gs = Gensym()
        body = expand_macros(r.body, macros, gs)
        heads = []
        for h in r.heads:
            if isinstance(h, MacroCall):
                md = macros[h.name]
                m = {}
                for (pn, pk), a in zip(md.params, h.args):
                    m[pn] = a.n if (isinstance(a, V) and pk == "ident") else a
                heads += [hh.sub(m) for hh in md.body]
            else:
                heads.append(h)
        for b in expand_disjunctions(body):
            for h in heads:
                out.append((h, b))
    return out


# ---------------------------------------------------------------- reference evaluation
def rel_deps(p, rules):
    """relation dependency graph: head -> (body rel, negative?)"""
    deps = {r: set() for r in p.relmap}
    for h, body in rules:
        for it in body:
            if isinstance(it, Clause):
                deps[h.rel].add((it.rel, False))
            elif isinstance(it, (Neg, Agg)):
                deps[h.rel].add((it.rel, True))
    return deps


def sccs(nodes, succ):
    """Tarjan; returns SCCs in reverse topological order (dependencies first)"""
    index, low, on, st, out = {}, {}, set(), [], []
    cnt = [0]

    def visit(v):
        index[v] = low[v] = cnt[0]
        cnt[0] += 1
        st.append(v)
        on.add(v)
        for w in succ(v):
            if w not in index:
                visit(w)
                low[v] = min(low[v], low[w])
            elif w in on:
                low[v] = min(low[v], index[w])
        if low[v] == index[v]:
            comp = []
            while True:
                w = st.pop()
                on.discard(w)
                comp.append(w)
                if w == v:
                    break
            out.append(comp)
    for v in nodes:
        if v not in index:
            visit(v)
    return out


class RefState:
    """rel -> {tuple: cond} for relations; rel -> {key: (exists, [(cond, val)])} for lattices"""

    def __init__(s, p):
        s.p = p
        s.rel = {r: {} for r in p.relmap}

    def copy(s):
        c = RefState(s.p)
        c.rel = {r: dict(d) for r, d in s.rel.items()}
        return c


def lat_entries(ent):
    """(exists, alts) -> [(cond, val)]"""
    ex, alts = ent
    return [(And_(ex, c), v) for c, v in alts]


def lat_join_in(ent, c, v):
    """join value v into a lattice entry under condition c"""
    if ent is None:
        return (c, [(True, v)])
    ex, alts = ent
    new = []
    for ci, vi in alts:
        j = lat_join(vi, v)
        if j == vi:
            new.append((ci, vi))
        else:
            new.append((And_(ci, ex, c), j))
            new.append((And_(ci, Not_(And_(ex, c))), vi))
    # when the entry does not exist yet its value is v
    out = []
    for ci, vi in new:
        out.append((And_(ex, ci), vi))
    out.append((And_(Not_(ex), c), v))
    return (Or_(ex, c), merge_alts(out))


def eval_body(p, items, st, env, cond, out):
    """enumerate the satisfying instances of a core body: calls out(env, cond) for each"""
    if is_const(cond) and not cond:
        return
    if not items:
        out(env, cond)
        return
    it, rest = items[0], items[1:]
    if isinstance(it, Clause):
        r = p.relmap[it.rel]
        if r.lattice:
            cands = []
            for key, ent in st.rel[it.rel].items():
                for c, v in lat_entries(ent):
                    cands.append((tuple(key) + (v,), c))
        else:
            cands = list(st.rel[it.rel].items())
        for t, c in cands:
            e2 = dict(env)
            if unify(it.args, t, e2):
                eval_body(p, rest, st, e2, And_(cond, c), out)
        return
    if isinstance(it, Neg):
        cs = []
        for t, c in _matching(p, it.rel, it.args, st, env):
            cs.append(c)
        eval_body(p, rest, st, env, And_(cond, Not_(OrL(cs))), out)
        return
    if isinstance(it, Agg):
        # each distinct matching tuple exactly once; the aggregator gets the bound columns
        items_ = []
        for t, c, e2 in _matching(p, it.rel, it.args, st, env, with_env=True):
            items_.append((c, tuple(e2[b] for b in it.bound)))
        for c, results in ref_aggregate(it.agg, items_):
            for rv in results:
                e3 = dict(env)
                if it.result_pat.match(rv, e3):
                    eval_body(p, rest, st, e3, And_(cond, c), out)
        return
    if isinstance(it, If):
        if it.e.ev(env):
            eval_body(p, rest, st, env, cond, out)
        return
    if isinstance(it, IfLet):
        e2 = dict(env)
        if it.p.match(it.e.ev(env), e2):
            eval_body(p, rest, st, e2, cond, out)
        return
    if isinstance(it, Let):
        e2 = dict(env)
        if not it.p.match(it.e.ev(env), e2):
            raise Unsupported("refutable let")
        eval_body(p, rest, st, e2, cond, out)
        return
    if isinstance(it, For):
        for v in it.e.ev(env):
            e2 = dict(env)
            if it.p.match(v, e2):
                eval_body(p, rest, st, e2, cond, out)
        return
    raise Unsupported("core body item %r" % it)


def unify(args, t, env):
    for a, v in zip(args, t):
        if isinstance(a, Wild):
            continue
        if isinstance(a, Pat):
            if not a.p.match(v, env):
                return False
        elif isinstance(a, V):
            if a.n in env:
                if env[a.n] != v:
                    return False
            else:
                env[a.n] = v
        else:
            if a.ev(env) != v:
                return False
    return True


def _matching(p, rel, args, st, env, with_env=False):
    r = p.relmap[rel]
    if r.lattice:
        cands = []
        for key, ent in st.rel[rel].items():
            for c, v in lat_entries(ent):
                cands.append((tuple(key) + (v,), c))
    else:
        cands = list(st.rel[rel].items())
    for t, c in cands:
        e2 = dict(env)
        if unify(args, t, e2):
            yield (t, c, e2) if with_env else (t, c)


class F64(tuple):
    def __new__(cls, fr):
        return tuple.__new__(cls, ("F64", fr.numerator, fr.denominator))


def ref_aggregate(name, items):
    """guarded fold over [(cond, bound-column tuple)] -> [(cond, [results])]"""
    def x0(it):
        return it[0]
    if name == "count":
        init, step, fin = 0, (lambda s, it: s + 1), (lambda s: [s])
    elif name == "sum":
        init, step, fin = 0, (lambda s, it: s + x0(it)), (lambda s: [s])
    elif name == "min":
        init, step, fin = None, (lambda s, it: x0(it) if s is None or ord_cmp(x0(it), s) < 0 else s), (lambda s: [] if s is None else [s])
    elif name == "max":
        init, step, fin = None, (lambda s, it: x0(it) if s is None or ord_cmp(x0(it), s) > 0 else s), (lambda s: [] if s is None else [s])
    elif name == "mean":
        init, step, fin = (0, 0), (lambda s, it: (s[0] + x0(it), s[1] + 1)), (lambda s: [] if s[1] == 0 else [F64(Fraction(s[0], s[1]))])
    elif name == "not":
        init, step, fin = False, (lambda s, it: True), (lambda s: [] if s else [()])
    elif name == "wsum":
        init, step, fin = 0, (lambda s, it: s + 3 * it[0] + it[1]), (lambda s: [s])
    elif name == "ends":
        init, step, fin = None, (lambda s, it: (x0(it), x0(it)) if s is None else (min(s[0], x0(it)), max(s[1], x0(it)))), \
            (lambda s: [] if s is None else ([s[0]] if s[0] == s[1] else [s[0], s[1]]))
    else:
        raise Unsupported("aggregator " + name)
    states = {init: True}
    for c, it in items:
        if is_const(c) and not c:
            continue
        nxt = {}
        for s, sc in states.items():
            s2 = step(s, it)
            nxt[s2] = Or_(nxt.get(s2, False), And_(sc, c))
            if not (is_const(c) and c):
                nxt[s] = Or_(nxt.get(s, False), And_(sc, Not_(c)))
        states = nxt
    return [(sc, fin(s)) for s, sc in states.items()]


def reference_model(p, inputs, changed_check=None, max_rounds=64):
    """stratified least model.  inputs: RefState-like dict rel -> {tuple: cond} (lattice: key -> entry).
    changed_check(old_conds, new_conds) -> bool decides whether another naive round is needed
    (solver-backed in the symbolic case, plain comparison in the concrete case)."""
    rules = core_rules(p)
    st = RefState(p)
    for r, d in inputs.items():
        st.rel[r] = dict(d)
    for rn, r in p.relmap.items():
        for t in r.init_rows:
            st.rel[rn][t] = True
    deps = rel_deps(p, rules)
    order = sccs(sorted(p.relmap), lambda v: sorted({d for d, _ in deps[v]}))
    stats = {"rounds": [], "rule_fire": {}}
    rule_ids = {id(rb): i for i, rb in enumerate(rules)}
    for comp in order:
        comp_rules = [rb for rb in rules if rb[0].rel in comp]
        if not comp_rules:
            continue
        recursive = any(it.rel in comp for h, b in comp_rules for it in b if isinstance(it, (Clause, Neg, Agg)))
        for h, b in comp_rules:
            for it in b:
                if isinstance(it, (Neg, Agg)) and it.rel in comp:
                    raise Unsupported("not stratifiable")
        rounds = 0
        while True:
            rounds += 1
            new = st.copy()
            for rb in comp_rules:
                h, b = rb
                fire = []

                def emit(env, cond, h=h, fire=fire):
                    fire.append(cond)
                    t = tuple(_head_val(a, env) for a in h.args)
                    r = p.relmap[h.rel]
                    if r.lattice:
                        key, v = t[:-1], t[-1]
                        new.rel[h.rel][key] = lat_join_in(new.rel[h.rel].get(key), cond, v)
                    else:
                        new.rel[h.rel][t] = Or_(new.rel[h.rel].get(t, False), cond)
                eval_body(p, b, st, dict(getattr(p, "locals", {}) or {}), True, emit)
                stats["rule_fire"][rule_ids[id(rb)]] = OrL(fire)
            if not recursive:
                st = new
                break
            ch = state_changed(st, new, comp, changed_check)
            st = new
            if not ch:
                break
            if rounds >= max_rounds:
                raise Unsupported("reference model did not converge in %d rounds" % max_rounds)
        stats["rounds"].append((comp, rounds))
    return st, stats


def _head_val(a, env):
    if isinstance(a, V):
        return env[a.n]
    return a.ev(env)


def state_changed(old, new, comp, changed_check):
    olds, news = [], []
    for r in comp:
        po, pn = old.rel[r], new.rel[r]
        lattice = old.p.relmap[r].lattice
        for k in pn:
            if lattice:
                eo = po.get(k)
                en = pn[k]
                for c, v in lat_entries(en):
                    co = False
                    if eo is not None:
                        for c2, v2 in lat_entries(eo):
                            if v2 == v:
                                co = c2
                    olds.append(co)
                    news.append(c)
            else:
                olds.append(po.get(k, False))
                news.append(pn[k])
    if changed_check is None:
        return any(a != b for a, b in zip(olds, news))
    return changed_check(olds, news)
