"""debug helper: run every program of a generator expression under one scenario, in-process, and print one line each
usage: python3-vt -m symx.many "gen.random_macro_programs(8000, 8)" run [D]"""
import sys, time, random, json
sys.path.insert(0, '/verif')
from symx import lang as L, corpus as Cp, driver as Dr, gen, scenario as Sc, checker as Ck
progs = eval(sys.argv[1])
kind = sys.argv[2]
D = int(sys.argv[3]) if len(sys.argv) > 3 else 3
cp = Cp.Corpus('many-%d' % (hash(sys.argv[1]) % 100000), progs, hooks=True)
cp.build()
ast = cp.load_ast()
print("dropped:", cp.dropped)
for p in progs:
    if p.name in cp.dropped:
        continue
    sc = Sc.Scenario(kind, D=D)
    t0 = time.time()
    out = Ck.check_program(cp, Dr.find_module(ast, p.name), p, sc, random.Random(1), V=3)
    print(p.name, out.status, out.detail[:300], [(q.name, q.verdict) for q in out.queries], "%.1fs" % (time.time() - t0), out.stats.get("bdd_nodes"), out.stats.get("rules_fireable"))
    if out.status != "ok":
        print(L.program_rs(p))
