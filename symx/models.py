"""Contract models of the run-time library objects the generated code manipulates.

Values (keys, tuples) are concrete Python values; presence / multiplicity is symbolic.
Multiplicity is unary: counts[i] = "at least i+1 copies", saturating at MAXM with an
overflow flag recorded in the context (an overflow that is satisfiable makes the query
inconclusive, it is never ignored).

The contract implemented here is what C19 checks for the real serial index types:
  index_insert adds one entry; index_get(k) = the entries under k (None iff none);
  iter_all = every key with its entries; contains_key; insert_if_not_present = true iff
  absent, then inserts; merge: total += delta, delta = new, new = empty;
  len_estimate = number of keys of the map; is_empty = (len == 0).
"""
from .sym import *
from .values import TS, NONE, Some, Unsupported, lat_join

MAXM = 2


def zero_counts():
    return [False] * MAXM


def counts_add(cnt, g, ctx):
    """one more copy under guard g"""
    new = []
    for i in range(MAXM):
        prev = True if i == 0 else cnt[i - 1]
        new.append(Or_(cnt[i], And_(g, prev)))
    ov = And_(g, cnt[MAXM - 1])
    if ov is not False:
        ctx.overflow.append(ov)
    return new


def counts_sum(a, b, ctx):
    """multiset sum of two unary counts"""
    def ge(c, k):  # count >= k
        return True if k == 0 else (c[k - 1] if k <= MAXM else False)
    new = []
    for k in range(1, MAXM + 1):
        new.append(OrL([And_(ge(a, i), ge(b, k - i)) for i in range(0, k + 1)]))
    ov = OrL([And_(ge(a, i), ge(b, MAXM + 1 - i)) for i in range(1, MAXM + 1)])
    if ov is not False:
        ctx.overflow.append(ov)
    return new


def counts_restrict(c, g):
    return [And_(x, g) for x in c]


def counts_ite(g, a, b):
    return [If_(g, x, y) for x, y in zip(a, b)]


class Iter:
    """A finite iterator: list of (cond, item); item present iff cond."""

    def __init__(self, items):
        self.items = [(c, v) for c, v in items if c is not False]
        self.pos = 0  # for next(): number of leading items consumed (only supported on concrete prefix)

    def clone(self):
        return Iter(list(self.items))

    def chain(self, other):
        return Iter(self.items + other.items)

    def any_present(self):
        return OrL([c for c, _ in self.items])

    def __repr__(self):
        return "Iter(%d)" % len(self.items)


class Multi:
    """RelIndexType1<K,V> = HashMap<K, Vec<V>> (also behind ToRelIndexType)"""
    kind = "multi"

    def __init__(self):
        self.d = {}

    def fresh(self):
        return Multi()

    def index_insert(self, k, v, g, ctx):
        vs = self.d.setdefault(k, {})
        vs[v] = counts_add(vs.get(v) or zero_counts(), g, ctx)

    def key_present(self, k):
        vs = self.d.get(k)
        if not vs:
            return False
        return OrL([c[0] for c in vs.values()])

    def _vals_iter(self, k):
        items = []
        for v, cnt in self.d.get(k, {}).items():
            for i in range(MAXM):
                items.append((cnt[i], v))
        return Iter(items)

    def index_get(self, k):
        p = self.key_present(k)
        return [(p, Some(self._vals_iter(k))), (Not_(p), NONE)]

    def iter_all(self):
        return Iter([(self.key_present(k), (k, self._vals_iter(k))) for k in self.d])

    def len_estimate(self):
        return SumI([b2i(self.key_present(k)) for k in self.d])

    def is_empty(self):
        return Not_(OrL([self.key_present(k) for k in self.d]))

    def absorb(self, other, g, ctx):
        """self += other (multiset sum) under guard g"""
        for k, vs in other.d.items():
            mine = self.d.setdefault(k, {})
            for v, cnt in vs.items():
                cnt = counts_restrict(cnt, g)
                mine[v] = counts_sum(mine.get(v) or zero_counts(), cnt, ctx)

    def restrict(self, g):
        r = Multi()
        for k, vs in self.d.items():
            r.d[k] = {v: counts_restrict(c, g) for v, c in vs.items()}
        return r

    @staticmethod
    def ite(g, a, b):
        r = Multi()
        for k in set(a.d) | set(b.d):
            va, vb = a.d.get(k, {}), b.d.get(k, {})
            r.d[k] = {v: counts_ite(g, va.get(v) or zero_counts(), vb.get(v) or zero_counts()) for v in set(va) | set(vb)}
        return r

    def entries(self):
        for k, vs in self.d.items():
            for v, c in vs.items():
                yield k, v, c

    def compact(self, nm):
        for vs in self.d.values():
            for v, c in vs.items():
                vs[v] = [nm(x) for x in c]


class Full:
    """RelFullIndexType<K,V> = hashbrown::HashMap<K,V>; V = () for relations, usize (row id) for lattices"""
    kind = "full"

    def __init__(self):
        self.d = {}  # key -> [present, [(cond, val)]]

    def fresh(self):
        return Full()

    def _set(self, k, v, g):
        ent = self.d.get(k)
        if ent is None:
            self.d[k] = [g, [(True, v)]]
            return
        present, alts = ent
        new_alts = merge_alts([(And_(c, Not_(g)), old) for c, old in alts] + [(g, v)])
        self.d[k] = [Or_(present, g), new_alts]

    def index_insert(self, k, v, g, ctx):
        self._set(k, v, g)

    def contains_key(self, k):
        ent = self.d.get(k)
        return ent[0] if ent else False

    def insert_if_not_present(self, k, v, g, ctx):
        absent = Not_(self.contains_key(k))
        self._set(k, v, And_(g, absent))
        return absent

    def index_get(self, k):
        ent = self.d.get(k)
        if not ent:
            return [(True, NONE)]
        present, alts = ent
        out = [(And_(present, c), Some(Iter([(True, v)]))) for c, v in alts]
        out.append((Not_(present), NONE))
        return out

    def iter_all(self):
        items = []
        for k, (present, alts) in self.d.items():
            for c, v in alts:
                items.append((And_(present, c), (k, Iter([(True, v)]))))
        return Iter(items)

    def len_estimate(self):
        return SumI([b2i(p) for p, _ in self.d.values()])

    def is_empty(self):
        return Not_(OrL([p for p, _ in self.d.values()]))

    def absorb(self, other, g, ctx):
        for k, (present, alts) in other.d.items():
            for c, v in alts:
                self._set(k, v, And_(g, present, c))

    def restrict(self, g):
        r = Full()
        for k, (p, alts) in self.d.items():
            r.d[k] = [And_(p, g), list(alts)]
        return r

    def compact(self, nm):
        for k, (p, alts) in self.d.items():
            self.d[k] = [nm(p), [(nm(c), v) for c, v in alts] if len(alts) > 1 else alts]

    @staticmethod
    def ite(g, a, b):
        r = Full()
        for k in set(a.d) | set(b.d):
            ea, eb = a.d.get(k), b.d.get(k)
            pa, aa = ea if ea else (False, [])
            pb, ab = eb if eb else (False, [])
            alts = merge_alts([(And_(g, c), v) for c, v in aa] + [(And_(Not_(g), c), v) for c, v in ab])
            r.d[k] = [If_(g, pa, pb), alts]
        return r


class LatSet:
    """LatticeIndexType<K,V> = HashMap<K, HashSet<V>>"""
    kind = "latset"

    def __init__(self):
        self.d = {}

    def fresh(self):
        return LatSet()

    def index_insert(self, k, v, g, ctx):
        vs = self.d.setdefault(k, {})
        vs[v] = Or_(vs.get(v, False), g)

    def key_present(self, k):
        vs = self.d.get(k)
        return OrL(list(vs.values())) if vs else False

    def _vals_iter(self, k):
        return Iter([(c, v) for v, c in self.d.get(k, {}).items()])

    def index_get(self, k):
        p = self.key_present(k)
        return [(p, Some(self._vals_iter(k))), (Not_(p), NONE)]

    def iter_all(self):
        return Iter([(self.key_present(k), (k, self._vals_iter(k))) for k in self.d])

    def len_estimate(self):
        return SumI([b2i(self.key_present(k)) for k in self.d])

    def is_empty(self):
        return Not_(OrL([self.key_present(k) for k in self.d]))

    def absorb(self, other, g, ctx):
        for k, vs in other.d.items():
            mine = self.d.setdefault(k, {})
            for v, c in vs.items():
                mine[v] = Or_(mine.get(v, False), And_(c, g))

    def restrict(self, g):
        r = LatSet()
        for k, vs in self.d.items():
            r.d[k] = {v: And_(c, g) for v, c in vs.items()}
        return r

    def compact(self, nm):
        for vs in self.d.values():
            for v, c in vs.items():
                vs[v] = nm(c)

    @staticmethod
    def ite(g, a, b):
        r = LatSet()
        for k in set(a.d) | set(b.d):
            va, vb = a.d.get(k, {}), b.d.get(k, {})
            r.d[k] = {v: If_(g, va.get(v, False), vb.get(v, False)) for v in set(va) | set(vb)}
        return r


def prune_twice(obj, ctx):
    """(conditions are canonical BDDs: an impossible second copy is already the constant False)"""
    ctx.checkpoint()


def merge_step(new, delta, total, g, ctx):
    """RelIndexMerge::merge_delta_to_total_new_to_delta under guard g (contract):
    total += delta; delta = new; new = empty.  Objects are updated in place."""
    if g is True:
        total.absorb(delta, True, ctx)
        delta.d = new.d
        new.d = {}
        prune_twice(delta, ctx)
        prune_twice(total, ctx)
        ctx.compact([delta, total])
        return
    if g is False:
        return
    total.absorb(delta, g, ctx)
    cls = type(delta)
    nd = cls.ite(g, new, delta)
    nn = new.restrict(Not_(g))
    delta.d = nd.d
    new.d = nn.d
    prune_twice(delta, ctx)
    prune_twice(total, ctx)
    ctx.compact([new, delta, total])


class RowTok:
    """the value of `_self.rel.len()` used as the index of the row about to be pushed"""

    def __init__(self, vec):
        self.vec = vec
        self.pending = []  # (index_obj, key, guard)
        self.resolved = None  # [(cond, rowid)]

    def __repr__(self):
        return "RowTok"


class RelVec:
    """Vec<tuple> of a plain relation: multiset of tuples"""
    kind = "relvec"

    def __init__(self, name=""):
        self.name = name
        self.d = {}  # tuple -> counts

    def push(self, t, g, ctx):
        self.d[t] = counts_add(self.d.get(t) or zero_counts(), g, ctx)

    def len(self):
        return RowTok(self)

    def iter_enumerated(self):
        items = []
        for t, cnt in self.d.items():
            for i in range(MAXM):
                items.append((cnt[i], (RowTok(self), t)))
        return Iter(items)

    def iter(self):
        items = []
        for t, cnt in self.d.items():
            for i in range(MAXM):
                items.append((cnt[i], t))
        return Iter(items)

    def restrict(self, g):
        r = RelVec(self.name)
        r.d = {t: counts_restrict(c, g) for t, c in self.d.items()}
        return r

    def present(self, t):
        c = self.d.get(t)
        return c[0] if c else False

    def compact(self, nm):
        for t, c in self.d.items():
            self.d[t] = [nm(x) for x in c]

    def twice(self, t):
        c = self.d.get(t)
        return c[1] if c else False


LAT_SLOTS = 2


class LatVec:
    """Vec<tuple> of a lattice relation: rows identified by (key, slot); the lattice column of a
    row is a guarded set of alternatives [(cond, value)] (exactly one holds when the row exists)."""
    kind = "latvec"

    def __init__(self, name=""):
        self.name = name
        self.rows = {}  # (key, slot) -> [exists, [(cond, val)]]
        self.pending_tok = None

    def len(self):
        tok = RowTok(self)
        self.pending_tok = tok
        return tok

    def push(self, row, g, ctx):
        key, val = tuple(row[:-1]), row[-1]
        used_before = True
        alts = []
        for s in range(LAT_SLOTS):
            ent = self.rows.get((key, s))
            ex = ent[0] if ent else False
            here = And_(g, used_before, Not_(ex))
            if here is not False:
                alts.append((here, (key, s)))
            used_before = And_(used_before, ex)
        ov = And_(g, used_before)
        if ov is not False:
            ctx.overflow.append(ov)
        for here, rid in alts:
            ent = self.rows.get(rid)
            if ent is None:
                self.rows[rid] = [here, [(True, val)]]
            else:
                ex, valts = ent
                self.rows[rid] = [Or_(ex, here), merge_alts([(And_(c, Not_(here)), v) for c, v in valts] + [(here, val)])]
        tok = self.pending_tok
        self.pending_tok = None
        if tok is not None:
            tok.resolved = alts
            for ind, k, gg in tok.pending:
                for here, rid in alts:
                    ind.index_insert(k, rid, And_(gg, here), ctx)
            tok.pending = []

    def get_row(self, rid, pc, ctx):
        """-> alternatives of the full row tuple"""
        if isinstance(rid, RowTok):
            raise Unsupported("row token used as an index before the row was pushed")
        ent = self.rows.get(rid)
        if ent is None:
            ctx.panics.append(pc)
            return []
        ex, valts = ent
        miss = And_(pc, Not_(ex))
        if miss is not False:
            ctx.panics.append(miss)
        key = rid[0]
        return [(And_(ex, c), tuple(key) + (v,)) for c, v in valts]

    def join_mut(self, rid, v, g, pc, ctx):
        ent = self.rows.get(rid)
        if ent is None:
            ctx.panics.append(pc)
            return False
        ex, valts = ent
        changed = []
        new = []
        for c, old in valts:
            j = lat_join(old, v)
            if j != old:
                changed.append(c)
                new.append((And_(c, g), j))
                new.append((And_(c, Not_(g)), old))
            else:
                new.append((c, old))
        self.rows[rid] = [ex, merge_alts(new)]
        return OrL(changed)

    def iter_enumerated(self):
        items = []
        for rid, (ex, valts) in self.rows.items():
            for c, v in valts:
                items.append((And_(ex, c), (rid, tuple(rid[0]) + (v,))))
        return Iter(items)

    def iter(self):
        return Iter([(c, t) for c, (_, t) in self.iter_enumerated().items])

    def restrict(self, g):
        r = LatVec(self.name)
        r.rows = {rid: [And_(ex, g), list(v)] for rid, (ex, v) in self.rows.items()}
        return r

    def compact(self, nm):
        for rid, (ex, valts) in self.rows.items():
            self.rows[rid] = [nm(ex), [(nm(c), v) for c, v in valts] if len(valts) > 1 else valts]


class Struct:
    def __init__(self, name, fields):
        self.name = name
        self.fields = fields

    def __repr__(self):
        return "Struct(%s)" % self.name


class Opaque:
    """values whose content never influences relations (timers, counters, durations)"""

    def __init__(self, what):
        self.what = what

    def __repr__(self):
        return "Opaque(%s)" % self.what


class Duration:
    def __init__(self, kind):
        self.kind = kind  # 'MAX' | 'finite' | 'ZERO' | 'elapsed'

    def __repr__(self):
        return "Duration(%s)" % self.kind


class Instant:
    def __init__(self, n):
        self.n = n


class Closure:
    def __init__(self, params, body, env):
        self.params, self.body, self.env = params, body, env
