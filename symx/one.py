"""debug helper: run one program of a generator function under one scenario and print the outcome"""
import sys, time, random, json
sys.path.insert(0, '/verif')
from symx import lang as L, corpus as Cp, driver as Dr, gen, scenario as Sc, checker as Ck
which, kind, name = sys.argv[1], sys.argv[2], sys.argv[3]
fn = getattr(gen, which)
progs = [p for p in (fn(0) if which == 'c06_variants' else fn()) if p.name == name]
cp = Cp.Corpus('one-' + name[:30], progs, hooks=True); cp.build(); ast = cp.load_ast()
p = progs[0]
print(L.program_rs(p))
sc = Sc.Scenario(kind, D=int(sys.argv[4]) if len(sys.argv) > 4 else 3)
out = Ck.check_program(cp, Dr.find_module(ast, p.name), p, sc, random.Random(1), V=3)
print(out.status, out.detail)
print(out.stats)
print([(q.name, q.verdict) for q in out.queries])
if out.cex: print('CEX', json.dumps(out.cex)); print('REPLAY', json.dumps(out.replay, default=str)[:3000])
if out.cex:
    from symx.sym import eval_b
    asg = sc.A.pin({k: [eval(t.replace('Some','Sm').replace('None','Nn'), {'Sm': lambda v: L.TS('Some', v), 'Nn': L.NONE, 'Dual': lambda v: L.TS('Dual', v)}) for t in v] for k, v in out.cex['inputs'].items()})
    for label, ob in sc.obs:
        for rn, d in ob.items():
            if p.relmap[rn].lattice: continue
            print(label, rn, 'code:', sorted(t for t, c in d.items() if eval_b(c[0], asg)), 'oracle:', sorted(t for t, c in sc.ref.rel[rn].items() if eval_b(c, asg)))
