import sys, time, random, cProfile, pstats, signal
sys.path.insert(0, '/verif')
from symx import lang as L, corpus as Cp, driver as Dr, gen, scenario as Sc, checker as Ck
which, kind, name = sys.argv[1], sys.argv[2], sys.argv[3]
progs = [p for p in getattr(gen, which)() if p.name == name]
cp = Cp.Corpus('try3', progs, hooks=True); cp.build(); ast = cp.load_ast()
p = progs[0]
import os
if os.environ.get('D'): p.D = int(os.environ['D'])
sc = Sc.Scenario(kind, D=3)
pr = cProfile.Profile()
def bail(*a): raise KeyboardInterrupt()
signal.signal(signal.SIGALRM, bail); signal.alarm(int(sys.argv[4]) if len(sys.argv) > 4 else 60)
try:
    pr.enable(); out = Ck.check_program(cp, Dr.find_module(ast, p.name), p, sc, random.Random(1), V=0); pr.disable()
    print(out.status, out.detail, out.stats)
except KeyboardInterrupt:
    pr.disable(); print('TIMEOUT; steps', sc.ex.ctx.steps if hasattr(sc,'ex') else '?')
pstats.Stats(pr).sort_stats('cumulative').print_stats(28)
