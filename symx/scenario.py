"""Scenarios: a script (history) executed symbolically on the generated code and natively on the real
build, with the oracle expectations and the solver queries that decide a property for one program."""
import time, random, itertools
from .sym import *
from .values import *
from . import lang as L
from . import driver as Dr
from . import models as M
from .corpus import rust_debug, parse_dump


class Query:
    def __init__(self, name, cond, kind, label=None):
        self.name, self.cond, self.kind, self.label = name, cond, kind, label
        self.verdict, self.time = None, 0.0


class Outcome:
    def __init__(self, prog, scenario):
        self.prog, self.scenario = prog, scenario
        self.queries = []        # Query
        self.status = "ok"       # ok | violation | known | inconclusive
        self.detail = ""
        self.cex = None          # dict describing the (first) counterexample
        self.cexes = []          # all natively reproduced counterexamples: [(cex, replay record)]
        self.replay = None       # native replay record
        self.validated = 0       # translator-validation databases that agreed
        self.stats = {}


def input_rels_default(prog):
    heads = set()
    for h, b in L.core_rules(prog):
        if b:
            heads.add(h.rel)
    return [r for r in prog.relmap if r not in heads and not prog.relmap[r].ds]


def input_rels_all(prog, D, cap=72):
    """every relation gets symbolic input facts; if that exceeds `cap` variables, derived relations of the
    highest arity are dropped first (relations no rule derives always stay)"""
    edb = input_rels_default(prog)
    rels = [r for r in prog.relmap if not prog.relmap[r].ds]

    def nvars(rs):
        return sum(D ** prog.relmap[r].arity for r in rs)
    idb = sorted([r for r in rels if r not in edb], key=lambda r: (prog.relmap[r].arity, r))
    while idb and nvars(edb + idb) > cap:
        idb.pop()
    return [r for r in rels if r in edb or r in idb]


class Scenario:
    """kinds:
      run        : default; A; run; observe                      expect M(A)
      rerun      : default; A; run; observe; run; observe        expect M(A) twice
      idem       : default; A; run; observe; run; observe        expect the second observation = the first
                   (no reference model involved: idempotence alone, for programs whose meaning the
                   reference semantics does not fix, e.g. equality tests on lattice values)
      push       : default; A; run; B; run; observe              expect M(A u B)
      timeout    : default; A; run_timeout; observe; run_timeout; observe; run; observe
    """

    def __init__(self, kind, D=3, dup=False, all_inputs=True, K=64, maxm=None):
        if maxm is None:
            maxm = {"run": 2, "rerun": 2, "idem": 2, "push": 3, "timeout": 3}[kind]
        self.kind, self.D, self.dup, self.all_inputs, self.K, self.maxm = kind, D, dup, all_inputs, K, maxm

    def describe(self):
        return {"kind": self.kind, "D": self.D, "duplicate_inputs": self.dup, "inputs_on_all_relations": self.all_inputs,
                "K_max": self.K, "max_multiplicity": self.maxm}

    # ---------------------------------------------------------------- symbolic side
    def execute(self, mod_ast, prog):
        M.MAXM = self.maxm
        kind = self.kind
        if getattr(prog, "D", None):
            self.D = prog.D
        rels = input_rels_all(prog, self.D, getattr(self, 'input_cap', 72)) if self.all_inputs else input_rels_default(prog)
        if getattr(prog, 'input_rels', None) is not None:
            rels = list(prog.input_rels)
        # relations with an initialiser start from exactly those tuples (pushing one of them again would be a
        # caller-made duplicate, which is not what the packaging property is about)
        rels = [r for r in rels if not prog.relmap[r].init_rows]
        reset_manager()
        if kind == "push":
            # variable order: the A- and B-variable of the same tuple next to each other
            relsB = [r for r in rels if not prog.relmap[r].lattice]
            self.relsB = relsB
            for rn in [r for r in prog.relmap if r in rels or r in relsB]:
                r = prog.relmap[rn]
                if r.lattice:
                    continue
                doms = [Dr.column_domain(t, self.D, prog) for t in r.types]
                for t in itertools.product(*doms):
                    if rn in rels:
                        BVar("inA_%s_%s" % (rn, rust_repr(t)))
                    if rn in relsB:
                        BVar("inB_%s_%s" % (rn, rust_repr(t)))
        A = Dr.Inputs(prog, self.D, rels, dup=self.dup, tag="A")
        self.A, self.B = A, None   # (available to the checker even when the execution below gives up)
        solver = None
        B = None
        ex = Dr.Exec(mod_ast, prog, K=self.K, clock=("free" if kind == "timeout" else "none"))
        ex.default()
        A.fill(ex.obj, ex.ctx)
        obs = []
        if kind == "run":
            ex.run()
            obs.append(("final", ex.observed()))
        elif kind in ("rerun", "idem"):
            ex.run()
            obs.append(("run1", ex.observed()))
            ex.run()
            obs.append(("run2", ex.observed()))
        elif kind == "push":
            ex.run()
            self.obs_mid = ex.observed()
            B = Dr.Inputs(prog, self.D, self.relsB, dup=False, tag="B")
            B.fill(ex.obj, ex.ctx)
            ex.run()
            obs.append(("final", ex.observed()))
        elif kind == "timeout":
            ex.run_timeout()
            obs.append(("t1", ex.observed()))
            ex.run_timeout()
            obs.append(("t2", ex.observed()))
            ex.run()
            obs.append(("final", ex.observed()))
        else:
            raise Unsupported("scenario " + kind)
        self.A, self.B, self.ex, self.solver, self.obs = A, B, ex, solver, obs
        return ex

    def oracle(self, prog):
        chk = Dr.changed_check
        inputs = self.A.ref_inputs()
        if self.B is not None:
            for rn, d in self.B.ref_inputs().items():
                tgt = inputs.setdefault(rn, {})
                for t, c in d.items():
                    tgt[t] = Or_(tgt.get(t, False), c)
        ref, stats = L.reference_model(prog, inputs, chk)
        self.ref, self.ref_stats = ref, stats
        return ref

    def input_mult2(self, rn, t):
        """condition under which the caller itself supplied tuple t twice"""
        c = False
        if self.dup and (rn, t) in self.A.vars2:
            c = self.A.vars2[(rn, t)]
        if self.B is not None and (rn, t) in self.B.vars:
            # the caller pushed a tuple that the relation already held after the first run
            before = self.obs_mid.get(rn, {}).get(t, (False, False, []))[0]
            c = Or_(c, And_(before, self.B.vars[(rn, t)]))
        return c

    def queries(self, prog):
        """the solver queries (each must be UNSAT for the property to hold within the bound)"""
        ex, ref = self.ex, self.ref
        qs = []
        ctx = ex.ctx
        if ctx.unwind:
            qs.append(Query("terminates_within_K", OrL(ctx.unwind), "nonterm"))
        if ctx.panics:
            qs.append(Query("no_panic", OrL(ctx.panics), "panic"))

        def equiv(label, obs, sound_only=False, when=True):
            diffs, dups = [], []
            for rn, r in prog.relmap.items():
                if r.ds:
                    continue
                if r.lattice:
                    code = obs[rn]
                    keys = set(code) | set(ref.rel[rn])
                    for key in keys:
                        slots = code.get(key, [])
                        ent = ref.rel[rn].get(key)
                        ex0 = OrL([e for _, e, _ in slots])
                        rex = ent[0] if ent else False
                        if sound_only:
                            # every row present carries a value below the final one
                            for _, e, valts in slots:
                                for c, v in valts:
                                    ok = OrL([And_(rc, lat_le(v, rv)) for rc, rv in (L.lat_entries(ent) if ent else [])])
                                    diffs.append(And_(e, c, Not_(ok)))
                        else:
                            diffs.append(Xor_(ex0, rex))
                            for _, e, valts in slots:
                                for c, v in valts:
                                    same = OrL([rc for rc, rv in (L.lat_entries(ent) if ent else []) if rv == v])
                                    diffs.append(And_(e, c, Not_(same)))
                        # one row per key
                        if len(slots) > 1:
                            es = [e for _, e, _ in slots]
                            for a, b in itertools.combinations(es, 2):
                                dups.append(And_(a, b))
                else:
                    code = obs[rn]
                    keys = set(code) | set(ref.rel[rn])
                    for t in keys:
                        pres, twice = code.get(t, (False, False, []))[:2]
                        orc = ref.rel[rn].get(t, False)
                        if sound_only:
                            diffs.append(And_(pres, Not_(orc)))
                        else:
                            diffs.append(Xor_(pres, orc))
                        dups.append(And_(twice, Not_(self.input_mult2(rn, t))))
            diffs = [And_(when, d) for d in diffs]
            dups = [And_(when, d) for d in dups]
            qs.append(Query(label + ":" + ("sound" if sound_only else "least_model"), OrL(diffs), "mismatch", label))
            qs.append(Query(label + ":no_duplicate_rows", OrL(dups), "duplicate", label))

        def unchanged(o1, o2):
            diffs = []
            for rn, r in prog.relmap.items():
                if r.ds:
                    continue
                if r.lattice:
                    for key in set(o1[rn]) | set(o2[rn]):
                        s1, s2 = o1[rn].get(key, []), o2[rn].get(key, [])
                        diffs.append(Xor_(OrL([e for _, e, _ in s1]), OrL([e for _, e, _ in s2])))
                        for _, e, valts in s2:
                            for c, v in valts:
                                same = OrL([And_(e1, c1) for _, e1, v1s in s1 for c1, v1 in v1s if v1 == v])
                                diffs.append(And_(e, c, Not_(same)))
                else:
                    for t in set(o1[rn]) | set(o2[rn]):
                        p1 = o1[rn].get(t, (False, False, []))[0]
                        p2 = o2[rn].get(t, (False, False, []))[0]
                        diffs.append(Xor_(p1, p2))
            qs.append(Query("run2:unchanged_since_run1", OrL(diffs), "mismatch", "run2"))

        if self.kind == "idem":
            unchanged(self.obs[0][1], self.obs[1][1])
        elif self.kind in ("run", "push"):
            equiv("final", self.obs[0][1])
        elif self.kind == "rerun":
            equiv("run1", self.obs[0][1])
            equiv("run2", self.obs[1][1])
        elif self.kind == "timeout":
            # C14 speaks about the state left by an *interrupted* call and about resuming from it; what a
            # further call does after a call that returned true is idempotence (C13) and is excluded here.
            rt = [OrL([c for c, v in ret if v is True]) for ret in ex.rets]
            rf = [OrL([c for c, v in ret if v is False]) for ret in ex.rets]
            equiv("t1_returned_true", self.obs[0][1], when=rt[0])
            equiv("t1_returned_false", self.obs[0][1], sound_only=True, when=rf[0])
            equiv("t2_resumed_returned_true", self.obs[1][1], when=And_(rf[0], rt[1]))
            equiv("t2_resumed_returned_false", self.obs[1][1], sound_only=True, when=And_(rf[0], rf[1]))
            equiv("final_after_two_interruptions", self.obs[2][1], when=And_(rf[0], rf[1]))
        # restricted twins of the queries whose counterexamples may be known findings: the solver returns one
        # counterexample per query, so a different violation of the same query could hide behind a known one.
        # The twin excludes the part of the input space the known finding lives in (and must be unsat as well).
        twins = []
        if self.kind == "timeout":
            # known finding F6: the resuming call re-indexes every stored tuple into the indices that were still
            # in the program value when the deadline struck, i.e. all but the ones the interrupted stratum had
            # taken out (those are dropped and rebuilt).  It needs an index of a count/sum/mean-aggregated
            # relation that stayed behind.  The twin keeps only interruptions inside strata that own all of them.
            safe = self.strata_owning_all_aggregated_indices(prog)
            later = OrL([And_(reach, dvar) for i, (dvar, reach, _c) in enumerate(ctx.deadline_info)
                         if ctx.deadline_scc.get(i) not in safe])
            for q in qs:
                if q.kind == "mismatch":
                    twins.append(Query(q.name + "|no_aggregated_index_outlives_an_interruption", And_(q.cond, Not_(later)), q.kind, q.label))
        if self.dup:
            agg_rels = set()
            for _h, b in L.core_rules(prog):
                for it in b:
                    if isinstance(it, L.Agg) and it.agg in ("count", "sum", "mean", "wsum"):
                        agg_rels.add(it.rel)
            dupped = OrL([v for (rn, _t), v in self.A.vars2.items() if rn in agg_rels])
            for q in qs:
                if q.kind == "mismatch":
                    twins.append(Query(q.name + "|no_duplicate_in_an_aggregated_relation", And_(q.cond, Not_(dupped)), q.kind, q.label))
        qs += twins
        kinds = getattr(self, "kinds", None)
        if kinds is not None:
            qs = [q for q in qs if q.kind in kinds]
        if ctx.overflow:
            qs.append(Query("multiplicity_within_bound", OrL(ctx.overflow), "overflow"))
        return qs

    # ---------------------------------------------------------------- concrete side
    def concrete_dbs(self, asg):
        dbA = self.A.concrete(asg)
        dbB = self.B.concrete(asg) if self.B is not None else None
        ks = []
        if self.kind == "timeout":
            # which deadline check fires in each call: index among the checks actually reached
            for call in range(2):
                ks.append(self._fired_index(asg, call))
        return dbA, dbB, ks

    def _fired_index(self, asg, call):
        ctx = self.ex.ctx
        dl = [d for d in ctx.deadline_info if d[2] == call]
        n = 0
        for dvar, reach, _ in dl:
            if eval_b(reach, asg):
                n += 1
                if eval_b(dvar, asg):
                    return n
        return 0

    def aggregated_index_fields(self, prog):
        """index fields (of the program value) of relations read by a multiplicity-sensitive aggregate"""
        rels = set()
        for _h, b in L.core_rules(prog):
            for it in b:
                if isinstance(it, L.Agg) and it.agg in ("count", "sum", "mean", "wsum"):
                    rels.add(it.rel)
        fields = set()
        for taken in self.ex.ctx.scc_taken.values():
            for f in taken:
                if any(f.startswith(r + "_indices_") for r in rels):
                    fields.add(f)
        return fields

    def strata_owning_all_aggregated_indices(self, prog):
        fields = self.aggregated_index_fields(prog)
        return {s for s, taken in self.ex.ctx.scc_taken.items() if fields <= taken}

    def interrupted_sccs(self, asg):
        """stratum number of the deadline check that fired in each run_timeout call (None = the call completed)"""
        ctx = self.ex.ctx
        out = []
        for call in range(2):
            hit = None
            for i, (dvar, reach, cidx) in enumerate(ctx.deadline_info):
                if cidx == call and eval_b(reach, asg) and eval_b(dvar, asg):
                    hit = ctx.deadline_scc.get(i)
                    break
            out.append(hit)
        return out

    def pin_deadlines(self, asg, ks):
        """extend an input assignment so that the k-th *reached* deadline check of each call fires"""
        ctx = self.ex.ctx
        for dvar, _, _ in ctx.deadline_info:
            asg[M_.names[M_.var[dvar.i]]] = False
        for call in range(2):
            n = 0
            for dvar, reach, cidx in ctx.deadline_info:
                if cidx != call:
                    continue
                if eval_b(reach, asg):
                    n += 1
                    if n == ks[call]:
                        asg[M_.names[M_.var[dvar.i]]] = True
        return asg

    def script_lines(self, prog, dbA, dbB, ks):
        lines = []
        for rn, rows in dbA.items():
            for t in rows:
                lines.append("push %s %s" % (rn, rust_repr(t)))
        k = self.kind
        if k == "run":
            lines += ["run", "dump"]
        elif k in ("rerun", "idem"):
            lines += ["run", "dump", "run", "dump"]
        elif k == "push":
            lines += ["run"]
            for rn, rows in (dbB or {}).items():
                for t in rows:
                    lines.append("push %s %s" % (rn, rust_repr(t)))
            lines += ["run", "dump"]
        elif k == "timeout":
            lines += ["run_timeout %d" % ks[0], "dump", "run_timeout %d" % ks[1], "dump", "run", "dump"]
        return lines

    def expected_concrete(self, prog, dbA, dbB):
        """reference model on concrete inputs -> {rel: set of rows}"""
        inputs = {}
        for db in (dbA, dbB or {}):
            for rn, rows in db.items():
                r = prog.relmap[rn]
                tgt = inputs.setdefault(rn, {})
                for t in rows:
                    if r.lattice:
                        key, v = tuple(t[:-1]), t[-1]
                        tgt[key] = L.lat_join_in(tgt.get(key), True, v)
                    else:
                        tgt[t] = True
        ref, _ = L.reference_model(prog, inputs, None)
        out = {}
        for rn, r in prog.relmap.items():
            if r.ds:
                continue
            if r.lattice:
                rows = set()
                for key, ent in ref.rel[rn].items():
                    for c, v in L.lat_entries(ent):
                        if c is True:
                            rows.add(tuple(key) + (v,))
                out[rn] = rows
            else:
                out[rn] = {t for t, c in ref.rel[rn].items() if c is True}
        return out
