"""Symbolic booleans for symx.

A "B" is either a Python bool or a `Bd` (a node of a reduced ordered BDD over the input-presence /
deadline variables).  Keeping every path condition and state bit in canonical form means that an
unsatisfiable guard *is* the constant False: dead instances, impossible second copies of a row, and
fixpoint iterations no database can reach disappear during symbolic execution without a solver call.
The verdict of every query is still asked of z3: `z(b)` exports the formula (an ITE DAG over the
variables) and the checker reports z3's sat/unsat answer and model.

An "I" is a Python int or a `Lin` (constant + weighted sum of B's); comparisons of Lin values are
compiled to BDDs (pseudo-boolean threshold functions)."""
import sys
import z3

sys.setrecursionlimit(100000)


NODE_LIMIT = 4_000_000


class BddBlowup(Exception):
    """the canonical forms grew beyond the node budget (retry with fewer symbolic inputs)"""


class _Mgr:
    def __init__(self):
        self.reset()

    def reset(self):
        # node 0 = False, node 1 = True
        self.var = [1 << 30, 1 << 30]
        self.lo = [0, 1]
        self.hi = [0, 1]
        self.unique = {}
        self.ite_cache = {}
        self.names = []       # variable index -> name
        self.by_name = {}
        self.z3vars = {}
        self.z3cache = {}
        self.objs = {}        # node id -> Bd

    def mk(self, v, lo, hi):
        if lo == hi:
            return lo
        key = (v, lo, hi)
        n = self.unique.get(key)
        if n is None:
            n = len(self.var)
            if n > NODE_LIMIT:
                raise BddBlowup()
            self.var.append(v)
            self.lo.append(lo)
            self.hi.append(hi)
            self.unique[key] = n
        return n

    def new_var(self, name):
        if name in self.by_name:
            return self.mk(self.by_name[name], 0, 1)
        i = len(self.names)
        self.names.append(name)
        self.by_name[name] = i
        return self.mk(i, 0, 1)

    def ite(self, f, g, h):
        if f == 1:
            return g
        if f == 0:
            return h
        if g == h:
            return g
        if g == 1 and h == 0:
            return f
        key = (f, g, h)
        r = self.ite_cache.get(key)
        if r is not None:
            return r
        var = self.var
        v = min(var[f], var[g], var[h])
        f0, f1 = (self.lo[f], self.hi[f]) if var[f] == v else (f, f)
        g0, g1 = (self.lo[g], self.hi[g]) if var[g] == v else (g, g)
        h0, h1 = (self.lo[h], self.hi[h]) if var[h] == v else (h, h)
        r = self.mk(v, self.ite(f0, g0, h0), self.ite(f1, g1, h1))
        self.ite_cache[key] = r
        return r

    def and_(self, a, b):
        if a == b:
            return a
        if a > b:
            a, b = b, a
        return self.ite(a, b, 0)

    def or_(self, a, b):
        if a == b:
            return a
        if a > b:
            a, b = b, a
        return self.ite(a, 1, b)

    def not_(self, a):
        return self.ite(a, 0, 1)


M_ = _Mgr()


class Bd:
    """a non-constant BDD node"""
    __slots__ = ("i",)

    def __init__(self, i):
        self.i = i

    def __repr__(self):
        return "Bd#%d" % self.i

    def __hash__(self):
        return self.i

    def __eq__(self, o):
        return isinstance(o, Bd) and o.i == self.i

    def __ne__(self, o):
        return not self.__eq__(o)

    def __bool__(self):
        raise TypeError("symbolic boolean used as a Python bool")


def _wrap(n):
    if n == 0:
        return False
    if n == 1:
        return True
    o = M_.objs.get(n)
    if o is None:
        o = M_.objs[n] = Bd(n)
    return o


def _id(b):
    if b is True:
        return 1
    if b is False:
        return 0
    return b.i


def reset_manager():
    M_.reset()


def BVar(name):
    return _wrap(M_.new_var(name))


TRUE, FALSE = True, False


def is_const(b):
    return isinstance(b, bool)


def is_b(v):
    return isinstance(v, (bool, Bd))


def Not_(a):
    if isinstance(a, bool):
        return not a
    return _wrap(M_.not_(a.i))


def And_(*xs):
    acc = 1
    for x in xs:
        if x is True:
            continue
        if x is False:
            return False
        acc = M_.and_(acc, x.i) if acc != 1 else x.i
        if acc == 0:
            return False
    return _wrap(acc)


def Or_(*xs):
    acc = 0
    for x in xs:
        if x is False:
            continue
        if x is True:
            return True
        acc = M_.or_(acc, x.i) if acc != 0 else x.i
        if acc == 1:
            return True
    return _wrap(acc)


def OrL(xs):
    return Or_(*xs)


def AndL(xs):
    return And_(*xs)


def Implies_(a, b):
    return Or_(Not_(a), b)


def If_(c, a, b):
    return _wrap(M_.ite(_id(c), _id(a), _id(b)))


def Eq_(a, b):
    return If_(a, b, Not_(b))


def Xor_(a, b):
    return If_(a, Not_(b), b)


# ---------------------------------------------------------------- integers
class Lin:
    """a symbolic natural number: const + sum of weight*[B]"""
    __slots__ = ("terms", "const")

    def __init__(self, terms, const=0):
        self.terms, self.const = terms, const

    def __add__(self, o):
        if isinstance(o, Lin):
            return Lin(self.terms + o.terms, self.const + o.const)
        if isinstance(o, int):
            return Lin(self.terms, self.const + o)
        return NotImplemented

    __radd__ = __add__

    def __sub__(self, o):
        if isinstance(o, Lin):
            return Lin(self.terms + [(b, -w) for b, w in o.terms], self.const - o.const)
        if isinstance(o, int):
            return Lin(self.terms, self.const - o)
        return NotImplemented

    def __rsub__(self, o):
        return Lin([(b, -w) for b, w in self.terms], o - self.const)

    def cmp(self, op, o):
        d = self - o
        terms, k = d.terms, -d.const  # sum(terms) op k
        if op == "<=":
            return Not_(pb_ge(terms, k + 1))
        if op == "<":
            return Not_(pb_ge(terms, k))
        if op == ">=":
            return pb_ge(terms, k)
        if op == ">":
            return pb_ge(terms, k + 1)
        if op == "==":
            return And_(pb_ge(terms, k), Not_(pb_ge(terms, k + 1)))
        if op == "!=":
            return Not_(And_(pb_ge(terms, k), Not_(pb_ge(terms, k + 1))))
        raise ValueError(op)


def pb_ge(terms, k):
    """BDD of  sum(w_i * [b_i]) >= k"""
    terms = [(b, w) for b, w in terms if w != 0 and b is not False]
    base = sum(w for b, w in terms if b is True)
    terms = [(b, w) for b, w in terms if b is not True]
    k = k - base
    n = len(terms)
    maxs, mins = [0] * (n + 1), [0] * (n + 1)
    for i in range(n - 1, -1, -1):
        w = terms[i][1]
        maxs[i] = maxs[i + 1] + max(w, 0)
        mins[i] = mins[i + 1] + min(w, 0)
    memo = {}

    def go(i, need):
        if need <= mins[i]:
            return True
        if need > maxs[i]:
            return False
        key = (i, need)
        r = memo.get(key)
        if r is None:
            b, w = terms[i]
            r = memo[key] = If_(b, go(i + 1, need - w), go(i + 1, need))
        return r
    return go(0, k)


def b2i(b):
    if isinstance(b, bool):
        return 1 if b else 0
    return Lin([(b, 1)], 0)


def SumI(xs):
    acc = 0
    for x in xs:
        acc = acc + x
    return acc


def is_sym(v):
    return isinstance(v, (Bd, Lin))


# ---------------------------------------------------------------- export to z3 / evaluation
def z3var(name):
    v = M_.z3vars.get(name)
    if v is None:
        v = M_.z3vars[name] = z3.Bool(name)
    return v


def z(b):
    """z3 formula of a B (ITE DAG over the variables; shared subgraphs are shared terms)"""
    if isinstance(b, bool):
        return z3.BoolVal(b)
    cache = M_.z3cache
    var, lo, hi, names = M_.var, M_.lo, M_.hi, M_.names
    stack = [b.i]
    while stack:
        n = stack[-1]
        if n in cache or n < 2:
            stack.pop()
            continue
        l, h = lo[n], hi[n]
        todo = [x for x in (l, h) if x >= 2 and x not in cache]
        if todo:
            stack.extend(todo)
            continue
        stack.pop()
        v = z3var(names[var[n]])
        zl = cache[l] if l >= 2 else None
        zh = cache[h] if h >= 2 else None
        if l == 0 and h == 1:
            cache[n] = v
        elif l == 1 and h == 0:
            cache[n] = z3.Not(v)
        elif h == 1:
            cache[n] = z3.Or(v, zl)
        elif h == 0:
            cache[n] = z3.And(z3.Not(v), zl)
        elif l == 0:
            cache[n] = z3.And(v, zh)
        elif l == 1:
            cache[n] = z3.Or(z3.Not(v), zh)
        else:
            cache[n] = z3.If(v, zh, zl)
    return cache[b.i]


def eval_b(b, asg):
    """evaluate under an assignment {variable name: bool} (missing variables = False)"""
    if isinstance(b, bool):
        return b
    n = b.i
    var, lo, hi, names = M_.var, M_.lo, M_.hi, M_.names
    while n >= 2:
        n = hi[n] if asg.get(names[var[n]], False) else lo[n]
    return n == 1


def model_assignment(model):
    """z3 model -> {name: bool} for every BDD variable"""
    asg = {}
    for name in M_.names:
        v = model.eval(z3var(name), model_completion=True)
        asg[name] = z3.is_true(v)
    return asg


def bdd_size(b):
    if isinstance(b, bool):
        return 0
    seen = set()
    st = [b.i]
    while st:
        n = st.pop()
        if n < 2 or n in seen:
            continue
        seen.add(n)
        st.append(M_.lo[n])
        st.append(M_.hi[n])
    return len(seen)


def manager_stats():
    return {"bdd_nodes": len(M_.var), "bdd_vars": len(M_.names)}


def new_solver():
    return z3.Solver()


def merge_alts(alts):
    """[(cond, value)] -> merged by equal (hashable) value, dropping false conds"""
    out = {}
    order = []
    for c, v in alts:
        if c is False:
            continue
        try:
            key = ("h", v)
            hash(key)
        except TypeError:
            key = ("id", id(v))
        if key in out:
            out[key] = (Or_(out[key][0], c), out[key][1])
        else:
            out[key] = (c, v)
            order.append(key)
    return [out[k] for k in order]
