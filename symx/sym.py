"""Boolean / integer helpers over z3 with constant folding.

A "B" is either a Python bool or a z3 BoolRef; an "I" is a Python int or a z3 ArithRef.
Keeping Python constants wherever possible lets the interpreter prune dead instances
syntactically and keeps the formulas small."""
import z3

TRUE, FALSE = True, False


def is_const(b):
    return isinstance(b, bool)


def z(b):
    """to z3"""
    if isinstance(b, bool):
        return z3.BoolVal(b)
    return b


def Not_(a):
    if isinstance(a, bool):
        return not a
    if z3.is_not(a):
        return a.arg(0)
    return z3.Not(a)


def And_(*xs):
    out = []
    for x in xs:
        if isinstance(x, bool):
            if not x:
                return False
            continue
        out.append(x)
    if not out:
        return True
    if len(out) == 1:
        return out[0]
    return z3.And(*out)


def Or_(*xs):
    out = []
    for x in xs:
        if isinstance(x, bool):
            if x:
                return True
            continue
        out.append(x)
    if not out:
        return False
    if len(out) == 1:
        return out[0]
    return z3.Or(*out)


def OrL(xs):
    return Or_(*xs)


def AndL(xs):
    return And_(*xs)


def Implies_(a, b):
    return Or_(Not_(a), b)


def If_(c, a, b):
    """ite over B values"""
    if isinstance(c, bool):
        return a if c else b
    if isinstance(a, bool) and isinstance(b, bool):
        if a == b:
            return a
        return c if a else Not_(c)
    if isinstance(a, bool):
        return Or_(c, b) if a else And_(Not_(c), b)
    if isinstance(b, bool):
        return Or_(Not_(c), a) if b else And_(c, a)
    if a is b or a.eq(b):
        return a
    return z3.If(c, a, b)


def IfI(c, a, b):
    """ite over I values"""
    if isinstance(c, bool):
        return a if c else b
    if isinstance(a, int) and isinstance(b, int) and a == b:
        return a
    ai = z3.IntVal(a) if isinstance(a, int) else a
    bi = z3.IntVal(b) if isinstance(b, int) else b
    return z3.If(c, ai, bi)


class Lin:
    """a symbolic natural number: const + sum of weight*[bool]; kept out of the arithmetic theory so that
    every query stays propositional + pseudo-boolean (decided by z3's SAT-based QF_FD solver)"""
    __slots__ = ("terms", "const")

    def __init__(self, terms, const=0):
        self.terms, self.const = terms, const

    def __add__(self, o):
        if isinstance(o, Lin):
            return Lin(self.terms + o.terms, self.const + o.const)
        if isinstance(o, int):
            return Lin(self.terms, self.const + o)
        return NotImplemented

    __radd__ = __add__

    def __sub__(self, o):
        if isinstance(o, Lin):
            return Lin(self.terms + [(b, -w) for b, w in o.terms], self.const - o.const)
        if isinstance(o, int):
            return Lin(self.terms, self.const - o)
        return NotImplemented

    def __rsub__(self, o):
        return Lin([(b, -w) for b, w in self.terms], o - self.const)

    def cmp(self, op, o):
        d = self - o if not isinstance(o, Lin) or True else None
        terms, k = d.terms, -d.const  # sum(terms) op k
        if not terms:
            return {"<": 0 < k, "<=": 0 <= k, ">": 0 > k, ">=": 0 >= k, "==": 0 == k, "!=": 0 != k}[op]
        if op == "<=":
            return z3.PbLe(terms, k)
        if op == "<":
            return z3.PbLe(terms, k - 1)
        if op == ">=":
            return z3.PbGe(terms, k)
        if op == ">":
            return z3.PbGe(terms, k + 1)
        if op == "==":
            return z3.And(z3.PbLe(terms, k), z3.PbGe(terms, k))
        if op == "!=":
            return z3.Not(z3.And(z3.PbLe(terms, k), z3.PbGe(terms, k)))
        raise ValueError(op)


def b2i(b):
    if isinstance(b, bool):
        return 1 if b else 0
    return Lin([(b, 1)], 0)


def SumI(xs):
    acc = 0
    for x in xs:
        acc = acc + x
    return acc


def new_solver():
    """SAT-based finite-domain solver: all symx queries are propositional + pseudo-boolean"""
    return z3.SolverFor("QF_FD")


def is_sym(v):
    return isinstance(v, (z3.ExprRef, Lin))


def Eq_(a, b):
    """equality of two B values"""
    if isinstance(a, bool) and isinstance(b, bool):
        return a == b
    if isinstance(a, bool):
        return b if a else Not_(b)
    if isinstance(b, bool):
        return a if b else Not_(a)
    return a == b


def Xor_(a, b):
    return Not_(Eq_(a, b))


class Fresh:
    """fresh variable factory with readable names"""

    def __init__(self):
        self.n = 0
        self.names = {}

    def bool(self, name):
        k = self.names.get(name, 0)
        self.names[name] = k + 1
        nm = name if k == 0 else "%s#%d" % (name, k)
        return z3.Bool(nm)


def merge_alts(alts):
    """[(cond, value)] -> merged by equal (hashable) value, dropping literally-false conds"""
    out = {}
    order = []
    for c, v in alts:
        if isinstance(c, bool) and not c:
            continue
        try:
            key = ("h", v)
            hash(key)
        except TypeError:
            key = ("id", id(v))
        if key in out:
            out[key] = (Or_(out[key][0], c), out[key][1])
        else:
            out[key] = (c, v)
            order.append(key)
    return [out[k] for k in order]


class Namer:
    """introduces a fresh Boolean for a state bit and asserts its definition permanently in the solver
    (iteration-boundary let-binding): later formulas stay shallow and every check only internalises what
    is new, instead of re-encoding the whole unrolled history under each push/pop."""

    def __init__(self, solver, prefix="d"):
        self.solver, self.prefix, self.n = solver, prefix, 0

    def name(self, b):
        if isinstance(b, bool):
            return b
        if z3.is_const(b) or (z3.is_not(b) and z3.is_const(b.arg(0))):
            return b
        self.n += 1
        v = z3.Bool("%s%d" % (self.prefix, self.n))
        self.solver.add(v == b)
        return v
