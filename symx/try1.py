import sys, time
sys.path.insert(0, '/verif')
import z3
from symx import lang as L, corpus as Cp, driver as Dr
from symx.lang import *
from symx.sym import *

x, y, zz = V('x'), V('y'), V('z')
tc = Program('p_tc', [Rel('edge', ['i32', 'i32']), Rel('path', ['i32', 'i32'])],
             [Rule([Head('path', [x, y])], [Clause('edge', [x, y])]),
              Rule([Head('path', [x, zz])], [Clause('path', [x, y]), Clause('path', [y, zz])])])
print(L.program_rs(tc))
cp = Cp.Corpus('try1', [tc], hooks=False)
t0 = time.time(); cp.build(); print('build', time.time() - t0, cp.stats)
ast = cp.load_ast()
mod = Dr.find_module(ast, 'p_tc')
for K in (3, 4, 6):
    t0 = time.time()
    ex = Dr.Exec(mod, tc, K=K)
    ex.default()
    inp = Dr.Inputs(tc, 3, ['edge'])
    inp.fill(ex.obj, ex.ctx)
    ex.run()
    print('K', K, 'exec', round(time.time() - t0, 2), 'steps', ex.ctx.steps, 'unwind', len(ex.ctx.unwind), 'overflow', len(ex.ctx.overflow))
    s = new_solver()
    s.add(*inp.constraints)
    s.push(); s.add(z3.Or(*[z(u) for u in ex.ctx.unwind])) if ex.ctx.unwind else s.add(False)
    r = s.check(); print(' unwind check:', r, round(time.time() - t0, 2)); s.pop()
    if r == z3.unsat:
        break
t0 = time.time()
ref, stats = L.reference_model(tc, inp.ref_inputs(), Dr.solver_changed_check(lambda: new_solver()))
print('oracle', round(time.time() - t0, 2), stats)
obs = ex.observed()
diffs = []
for rn in tc.relmap:
    keys = set(obs[rn]) | set(ref.rel[rn])
    for t in keys:
        code = obs[rn].get(t, (False, False))[0]
        orc = ref.rel[rn].get(t, False)
        diffs.append(Xor_(code, orc))
s.push(); s.add(z3.Or(*[z(d) for d in diffs]))
t0 = time.time(); print('equiv:', s.check(), round(time.time() - t0, 2)); s.pop()
dups = [obs[rn][t][1] for rn in tc.relmap for t in obs[rn]]
s.push(); s.add(z3.Or(*[z(d) for d in dups])); print('dups:', s.check()); s.pop()
s.push(); s.add(z3.Or(*[z(d) for d in ex.ctx.overflow])) if ex.ctx.overflow else s.add(False); print('overflow:', s.check()); s.pop()
