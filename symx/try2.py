import sys, time, random
sys.path.insert(0, '/verif')
from symx import lang as L, corpus as Cp, driver as Dr, gen, scenario as Sc, checker as Ck
progs = gen.c01_curated()
if len(sys.argv) > 1 and sys.argv[1] == 'timeout':
    for p in progs: p.attrs.append('generate_run_timeout')
if len(sys.argv) > 2:
    progs = [p for p in progs if p.name in sys.argv[2:]]
cp = Cp.Corpus('try2', progs, hooks=True)
t0 = time.time(); cp.build(); print('build', round(time.time() - t0, 1), cp.stats)
ast = cp.load_ast()
kind = sys.argv[1] if len(sys.argv) > 1 else 'run'
for p in progs:
    t0 = time.time()
    sc = Sc.Scenario(kind, D=3, dup=False)
    out = Ck.check_program(cp, Dr.find_module(ast, p.name), p, sc, random.Random(1), V=3)
    print(p.name, out.status, out.detail[:300], round(time.time() - t0, 1), out.stats, [(q.name, q.verdict, q.time) for q in out.queries])
    if out.cex: print('   CEX', out.cex, out.replay and out.replay.get('problems'))
