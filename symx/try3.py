import sys, time, random
sys.path.insert(0, '/verif')
from symx import lang as L, corpus as Cp, driver as Dr, gen, scenario as Sc, checker as Ck
which, kind = sys.argv[1], sys.argv[2]
progs = getattr(gen, which)()
if len(sys.argv) > 3:
    progs = [p for p in progs if p.name in sys.argv[3:]]
cp = Cp.Corpus('try3-' + '-'.join(sys.argv[3:])[:40], progs, hooks=True)
t0 = time.time(); cp.build(); print('build', round(time.time() - t0, 1), cp.stats)
ast = cp.load_ast()
import os
for p in progs:
    if os.environ.get('D'): p.D = int(os.environ['D'])
    t0 = time.time()
    sc = Sc.Scenario(kind, D=3, dup=False)
    out = Ck.check_program(cp, Dr.find_module(ast, p.name), p, sc, random.Random(1), V=3)
    print(p.name, out.status, out.detail[:600], round(time.time() - t0, 1), out.stats, [(q.name, q.verdict, q.time) for q in out.queries])
    if out.cex: print('   CEX', out.cex, out.replay and out.replay.get('problems'))
