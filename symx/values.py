"""The concrete value language of symx and the *contract* of the lattice types
(what C16 establishes for the real implementations)."""


class TS(tuple):
    """tuple-struct / enum variant value: TS('Some', 3), TS('None'), TS('Dual', 2), TS('Product', (1, 2))"""
    __slots__ = ()

    def __new__(cls, name, *fields):
        return tuple.__new__(cls, (name,) + tuple(fields))

    @property
    def name(self):
        return self[0]

    @property
    def fields(self):
        return tuple(self[1:])

    def __repr__(self):
        if len(self) == 1:
            return self[0]
        return "%s(%s)" % (self[0], ", ".join(repr(f) for f in self[1:]))

    def __eq__(self, o):
        return isinstance(o, TS) and tuple.__eq__(self, o)

    def __ne__(self, o):
        return not self.__eq__(o)

    def __hash__(self):
        return hash(("TS",) + tuple(self))


NONE = TS("None")


def Some(v):
    return TS("Some", v)


class Unsupported(Exception):
    """The interpreter met something outside its subset: the query is inconclusive."""


def rust_repr(v):
    """Rust literal text of a value (used when generating native replay input)."""
    if isinstance(v, bool):
        return "true" if v else "false"
    if isinstance(v, int):
        return str(v)
    if isinstance(v, TS):
        if len(v) == 1:
            return v.name
        return "%s(%s)" % (v.name, ", ".join(rust_repr(f) for f in v.fields))
    if isinstance(v, tuple):
        if len(v) == 1:
            return "(%s,)" % rust_repr(v[0])
        return "(%s)" % ", ".join(rust_repr(x) for x in v)
    if isinstance(v, frozenset):
        return "[%s]" % ", ".join(rust_repr(x) for x in sorted(v))
    raise Unsupported("rust_repr %r" % (v,))


# ---------------------------------------------------------------- lattice contract
def lat_le(a, b):
    """a <= b in the lattice order of the value's shape (None if incomparable is folded to False)"""
    return lat_join(a, b) == b


def lat_join(a, b):
    if isinstance(a, bool) and isinstance(b, bool):
        return a or b
    if isinstance(a, int) and isinstance(b, int):
        return max(a, b)
    if isinstance(a, TS) and isinstance(b, TS):
        an, bn = a.name, b.name
        if an == "Dual" and bn == "Dual":
            return TS("Dual", lat_meet(a[1], b[1]))
        if an == "Reverse" and bn == "Reverse":
            return TS("Reverse", lat_meet(a[1], b[1]))
        if an in ("Some", "None") and bn in ("Some", "None"):
            if an == "None":
                return b
            if bn == "None":
                return a
            return Some(lat_join(a[1], b[1]))
        if an == "Product" and bn == "Product":
            return TS("Product", tuple(lat_join(x, y) for x, y in zip(a[1], b[1])))
        if an == "OrdLattice" and bn == "OrdLattice":
            return a if a[1] >= b[1] else b
        if an == "Set" and bn == "Set":
            return TS("Set", a[1] | b[1])
        if an in ("Bottom", "Constant", "Top") and bn in ("Bottom", "Constant", "Top"):
            if an == "Bottom":
                return b
            if bn == "Bottom":
                return a
            if an == "Top" or bn == "Top":
                return TS("Top")
            return a if a[1] == b[1] else TS("Top")
    if isinstance(a, tuple) and isinstance(b, tuple) and not isinstance(a, TS) and not isinstance(b, TS):
        # tuples are ordered lexicographically (Ord), join = max
        return a if _ord_key(a) >= _ord_key(b) else b
    raise Unsupported("lat_join of %r and %r" % (a, b))


def lat_meet(a, b):
    if isinstance(a, bool) and isinstance(b, bool):
        return a and b
    if isinstance(a, int) and isinstance(b, int):
        return min(a, b)
    if isinstance(a, TS) and isinstance(b, TS):
        an, bn = a.name, b.name
        if an == "Dual" and bn == "Dual":
            return TS("Dual", lat_join(a[1], b[1]))
        if an == "Reverse" and bn == "Reverse":
            return TS("Reverse", lat_join(a[1], b[1]))
        if an in ("Some", "None") and bn in ("Some", "None"):
            if an == "None" or bn == "None":
                return NONE
            return Some(lat_meet(a[1], b[1]))
        if an == "Product" and bn == "Product":
            return TS("Product", tuple(lat_meet(x, y) for x, y in zip(a[1], b[1])))
        if an == "OrdLattice" and bn == "OrdLattice":
            return a if a[1] <= b[1] else b
        if an == "Set" and bn == "Set":
            return TS("Set", a[1] & b[1])
        if an in ("Bottom", "Constant", "Top") and bn in ("Bottom", "Constant", "Top"):
            if an == "Top":
                return b
            if bn == "Top":
                return a
            if an == "Bottom" or bn == "Bottom":
                return TS("Bottom")
            return a if a[1] == b[1] else TS("Bottom")
    if isinstance(a, tuple) and isinstance(b, tuple) and not isinstance(a, TS) and not isinstance(b, TS):
        return a if _ord_key(a) <= _ord_key(b) else b
    raise Unsupported("lat_meet of %r and %r" % (a, b))


def _ord_key(v):
    """derive(Ord)-style ordering key of plain values (ints, bools, tuples, Option, Dual-by-Ord)"""
    if isinstance(v, bool):
        return (0, int(v))
    if isinstance(v, int):
        return (0, v)
    if isinstance(v, TS):
        if v.name == "None":
            return (1, 0)
        if v.name == "Some":
            return (1, 1, _ord_key(v[1]))
        if v.name in ("Dual", "Reverse"):
            return (2, _neg_key(_ord_key(v[1])))
        return (3, v.name) + tuple(_ord_key(f) for f in v.fields)
    if isinstance(v, tuple):
        return (4,) + tuple(_ord_key(x) for x in v)
    raise Unsupported("ord key of %r" % (v,))


def _neg_key(k):
    if isinstance(k, tuple):
        return tuple(_neg_key(x) for x in k)
    if isinstance(k, int):
        return -k
    raise Unsupported("neg key %r" % (k,))


def ord_cmp(a, b):
    ka, kb = _ord_key(a), _ord_key(b)
    return (ka > kb) - (ka < kb)
