#!/bin/bash
# usage: tools/confirm_seed.sh <prop-id> <n>  — confirm a seeded mutation in its scratch worktree:
#  with the change: builds, the 61 pinned tests pass, the demo FAILS; without it: the demo PASSES.
id="$1"; n="$2"; wt=${SEEDROOT:-/tmp/seed}_$id; log=/verif/.cache/seedtests/confirm${SEEDTAG:-}-$id-$n.log
cd $wt || exit 9
export CARGO_NET_OFFLINE=true
git checkout -q -- . ; : > $log
run_demo() { (cd $wt/demo_$n && if grep -q "^\[\[test\]\]\|#\[test\]" -r src tests 2>/dev/null && ! [ -f src/main.rs ]; then cargo test --offline -j 4 2>&1; else cargo run --offline -j 4 2>&1; fi); }
run_demo > $log.clean 2>&1; clean_rc=$?
git apply mutation_$n.diff || { echo "apply failed" >> $log; exit 8; }
cargo test --workspace --no-fail-fast --offline -j 4 > $log.tests 2>&1; tests_rc=$?
passed=$(grep -E "^test result" $log.tests | awk '{s+=$4} END{print s}')
run_demo > $log.mut 2>&1; mut_rc=$?
git checkout -q -- .
rm -rf $wt/demo_$n/target
echo "seed $id m$n: clean_demo_rc=$clean_rc tests_rc=$tests_rc tests_passed=$passed mutated_demo_rc=$mut_rc" | tee -a $log
