#!/usr/bin/env python3
"""copy a confirmed seeded mutation into /verif/seeded/<id>-m<n>/ with meta.json"""
import sys, os, shutil, json, re
pid, n = sys.argv[1], sys.argv[2]
detected, note = sys.argv[3], (sys.argv[4] if len(sys.argv) > 4 else "")
root = os.environ.get("SEEDROOT", "/tmp/seed")
tag = os.environ.get("SEEDTAG", "")
wt = "%s_%s" % (root, pid)
dst = "/verif/seeded/%s%s-m%s" % (pid, tag, n)
os.makedirs(dst, exist_ok=True)
shutil.copy("%s/mutation_%s.diff" % (wt, n), dst + "/patch.diff")
shutil.copy("%s/mutation_%s.md" % (wt, n), dst + "/description.md")
if os.path.exists(dst + "/demo"):
    shutil.rmtree(dst + "/demo")
shutil.copytree("%s/demo_%s" % (wt, n), dst + "/demo", ignore=shutil.ignore_patterns("target", "Cargo.lock"))
conf = open("/verif/.cache/seedtests/confirm%s-%s-%s.log" % (tag, pid, n)).read().strip().splitlines()[-1]
md = open(dst + "/description.md").read()
m = re.search(r"(?is)##\s*what it needs.*?\n(.*?)(\n## |\Z)", md)
needs = (m.group(1).strip()[:1200] if m else "see description.md")
meta = {"property": pid, "mutation": int(n), "breaks": "see description.md", "needs_to_manifest": needs,
        "confirmed_by_me": {"how": "tools/confirm_seed.sh %s %s in a scratch worktree (/tmp/seed_%s): demo on clean code, apply patch, cargo test --workspace --offline, demo with the patch, revert" % (pid, n, pid),
                            "result": conf},
        "checks_run": "tools/seedtest2.sh <patch> <label> %s  (patch applied to a scratch worktree of /repo; VERIF_REPO=<worktree> ./check.py %s --tier quick; worktree removed)" % (pid, pid),
        "detected": detected, "note": note}
json.dump(meta, open(dst + "/meta.json", "w"), indent=1)
print("kept", dst)
