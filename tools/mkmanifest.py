#!/usr/bin/env python3
"""Regenerate /verif/MANIFEST.json from the property registries (single source of truth)."""
import json, os, sys
sys.path.insert(0, os.path.dirname(os.path.dirname(os.path.abspath(__file__))))
from lib import manifest_data as M

checks = []
for pid in sorted(M.CLAIMED):
    c = M.CLAIMED[pid]
    checks.append({
        "property_id": pid,
        "quick_cmd": "./check.py %s --tier quick" % pid,
        "thorough_cmd": "./check.py %s --tier thorough" % pid,
        "evidence_file": "/verif/evidence/%s.json" % pid,
        "replay_cmd_template": "./check.py %s --replay {path}" % pid,
        "engine": c["engine"],
        "level_claimed": {"category": c["level"], "text": c["text"], "design_ref": c["design_ref"]},
        "level_note": c["note"],
        "technique": c["technique"],
    })
man = {
    "version": 1,
    "setup_cmd": "./setup.sh",
    "hooks": M.HOOKS,
    "engines": M.ENGINES,
    "checks": checks,
    "notes": M.NOTES,
    "not_applicable": [{"property_id": p, "reason": r} for p, r in sorted(M.NOT_APPLICABLE.items())],
}
with open(os.path.join(os.path.dirname(os.path.dirname(os.path.abspath(__file__))), "MANIFEST.json"), "w") as f:
    json.dump(man, f, indent=1)
    f.write("\n")
try:
    import jsonschema
    jsonschema.validate(man, json.load(open("/root/.vp/MANIFEST.schema.json")))
    print("MANIFEST.json valid;", len(checks), "checks,", len(M.NOT_APPLICABLE), "not applicable")
except ImportError:
    print("MANIFEST.json written (jsonschema not available for validation)")
