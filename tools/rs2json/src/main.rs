//! rs2json: parse a Rust source file (the `-Zunpretty=expanded` output of the corpus crate)
//! with syn and print a compact JSON AST for symx (the Python symbolic executor).
//! Anything the converter does not know is emitted as {"k":"unknown", "what":…, "s":tokens}
//! so that the interpreter aborts as *inconclusive* if it ever has to execute it.
use quote::ToTokens;
use serde_json::{json, Value};
use syn::*;

fn toks<T: ToTokens>(t: &T) -> String { t.to_token_stream().to_string() }

fn path_segs(p: &Path) -> Vec<Value> {
   p.segments
      .iter()
      .map(|s| {
         let mut o = json!({"id": s.ident.to_string()});
         if let PathArguments::AngleBracketed(ab) = &s.arguments {
            let args: Vec<Value> = ab
               .args
               .iter()
               .map(|a| match a {
                  GenericArgument::Type(t) => ty(t),
                  other => json!({"k":"targ_other","s":toks(other)}),
               })
               .collect();
            o["args"] = Value::Array(args);
         }
         o
      })
      .collect()
}

fn ty(t: &Type) -> Value {
   match t {
      Type::Path(p) => json!({"k":"tpath","segs":path_segs(&p.path),"s":toks(t)}),
      Type::Tuple(tt) => json!({"k":"ttuple","elems":tt.elems.iter().map(ty).collect::<Vec<_>>()}),
      Type::Reference(r) => json!({"k":"tref","mut":r.mutability.is_some(),"e":ty(&r.elem)}),
      Type::Array(a) => json!({"k":"tarray","e":ty(&a.elem),"len":expr(&a.len)}),
      Type::Paren(p) => ty(&p.elem),
      Type::Infer(_) => json!({"k":"tinfer"}),
      other => json!({"k":"tother","s":toks(other)}),
   }
}

fn pat(p: &Pat) -> Value {
   match p {
      Pat::Ident(i) => {
         let mut o = json!({"k":"pident","id":i.ident.to_string(),"by_ref":i.by_ref.is_some(),"mut":i.mutability.is_some()});
         if let Some((_, sp)) = &i.subpat {
            o["sub"] = pat(sp);
         }
         o
      },
      Pat::Tuple(t) => json!({"k":"ptuple","elems":t.elems.iter().map(pat).collect::<Vec<_>>()}),
      Pat::TupleStruct(ts) => json!({"k":"ptstruct","path":path_segs(&ts.path),"elems":ts.elems.iter().map(pat).collect::<Vec<_>>()}),
      Pat::Wild(_) => json!({"k":"pwild"}),
      Pat::Lit(l) => json!({"k":"plit","e":lit(&l.lit)}),
      Pat::Reference(r) => json!({"k":"pref","e":pat(&r.pat)}),
      Pat::Paren(pp) => pat(&pp.pat),
      Pat::Or(o) => json!({"k":"por","cases":o.cases.iter().map(pat).collect::<Vec<_>>()}),
      Pat::Path(pp) => json!({"k":"ppath","path":path_segs(&pp.path)}),
      Pat::Type(pt) => json!({"k":"ptype","pat":pat(&pt.pat),"ty":ty(&pt.ty)}),
      Pat::Rest(_) => json!({"k":"prest"}),
      Pat::Struct(s) => json!({"k":"pstruct","path":path_segs(&s.path),
         "fields":s.fields.iter().map(|f| json!({"m":toks(&f.member),"pat":pat(&f.pat)})).collect::<Vec<_>>()}),
      Pat::Range(r) => json!({"k":"prange","s":toks(r)}),
      other => json!({"k":"unknown","what":"pat","s":toks(other)}),
   }
}

fn lit(l: &Lit) -> Value {
   match l {
      Lit::Int(i) => json!({"k":"lit","t":"int","v":i.base10_digits(),"suffix":i.suffix()}),
      Lit::Bool(b) => json!({"k":"lit","t":"bool","v":b.value}),
      Lit::Str(s) => json!({"k":"lit","t":"str","v":s.value()}),
      Lit::Float(f) => json!({"k":"lit","t":"float","v":f.base10_digits(),"suffix":f.suffix()}),
      Lit::Char(c) => json!({"k":"lit","t":"char","v":c.value().to_string()}),
      other => json!({"k":"unknown","what":"lit","s":toks(other)}),
   }
}

fn block(b: &Block) -> Value { json!({"k":"block","stmts":b.stmts.iter().map(stmt).collect::<Vec<_>>()}) }

fn binop(op: &BinOp) -> String { toks(op).replace(' ', "") }

fn expr(e: &Expr) -> Value {
   match e {
      Expr::Lit(l) => lit(&l.lit),
      Expr::Path(p) => json!({"k":"path","segs":path_segs(&p.path), "qself": p.qself.as_ref().map(|q| ty(&q.ty))}),
      Expr::Call(c) => json!({"k":"call","f":expr(&c.func),"args":c.args.iter().map(expr).collect::<Vec<_>>()}),
      Expr::MethodCall(m) => {
         let mut o = json!({"k":"mcall","recv":expr(&m.receiver),"m":m.method.to_string(),
            "args":m.args.iter().map(expr).collect::<Vec<_>>()});
         if let Some(tf) = &m.turbofish {
            o["turbofish"] = Value::Array(
               tf.args.iter().map(|a| match a { GenericArgument::Type(t) => ty(t), other => json!({"k":"targ_other","s":toks(other)}) }).collect(),
            );
         }
         o
      },
      Expr::Field(f) => json!({"k":"field","e":expr(&f.base),"m":toks(&f.member)}),
      Expr::Index(i) => json!({"k":"index","e":expr(&i.expr),"i":expr(&i.index)}),
      Expr::Reference(r) => json!({"k":"ref","mut":r.mutability.is_some(),"e":expr(&r.expr)}),
      Expr::Unary(u) => json!({"k":"unary","op":toks(&u.op),"e":expr(&u.expr)}),
      Expr::Binary(b) => json!({"k":"bin","op":binop(&b.op),"l":expr(&b.left),"r":expr(&b.right)}),
      Expr::Tuple(t) => json!({"k":"tuple","elems":t.elems.iter().map(expr).collect::<Vec<_>>()}),
      Expr::Array(a) => json!({"k":"array","elems":a.elems.iter().map(expr).collect::<Vec<_>>()}),
      Expr::Repeat(r) => json!({"k":"repeat","e":expr(&r.expr),"len":expr(&r.len)}),
      Expr::Paren(p) => expr(&p.expr),
      Expr::Group(g) => expr(&g.expr),
      Expr::Block(b) => {
         let mut o = block(&b.block);
         if let Some(l) = &b.label {
            o["label"] = Value::String(l.name.to_string());
         }
         o
      },
      Expr::Unsafe(b) => block(&b.block),
      Expr::If(i) => json!({"k":"if","cond":expr(&i.cond),"then":block(&i.then_branch),
         "else": i.else_branch.as_ref().map(|(_, e)| expr(e))}),
      Expr::Let(l) => json!({"k":"let","pat":pat(&l.pat),"e":expr(&l.expr)}),
      Expr::Loop(l) => json!({"k":"loop","body":block(&l.body),"label":l.label.as_ref().map(|x| x.name.to_string())}),
      Expr::While(w) => json!({"k":"while","cond":expr(&w.cond),"body":block(&w.body)}),
      Expr::ForLoop(f) => json!({"k":"for","pat":pat(&f.pat),"e":expr(&f.expr),"body":block(&f.body)}),
      Expr::Match(m) => json!({"k":"match","e":expr(&m.expr),"arms":m.arms.iter().map(|a| json!({
         "pat":pat(&a.pat),"guard":a.guard.as_ref().map(|(_, g)| expr(g)),"body":expr(&a.body)})).collect::<Vec<_>>()}),
      Expr::Closure(c) => json!({"k":"closure","params":c.inputs.iter().map(pat).collect::<Vec<_>>(),"body":expr(&c.body),
         "move": c.capture.is_some()}),
      Expr::Assign(a) => json!({"k":"assign","l":expr(&a.left),"r":expr(&a.right)}),
      Expr::Return(r) => json!({"k":"return","e":r.expr.as_ref().map(|e| expr(e))}),
      Expr::Break(b) => json!({"k":"break","e":b.expr.as_ref().map(|e| expr(e)),"label":b.label.as_ref().map(|x| x.to_string())}),
      Expr::Continue(_) => json!({"k":"continue"}),
      Expr::Cast(c) => json!({"k":"cast","e":expr(&c.expr),"ty":ty(&c.ty)}),
      Expr::Struct(s) => json!({"k":"struct","path":path_segs(&s.path),
         "fields":s.fields.iter().map(|f| json!({"m":toks(&f.member),"e":expr(&f.expr)})).collect::<Vec<_>>(),
         "rest": s.rest.as_ref().map(|r| expr(r))}),
      Expr::Macro(m) => json!({"k":"macro","path":path_segs(&m.mac.path),"tokens":m.mac.tokens.to_string()}),
      Expr::Range(r) => json!({"k":"range","start":r.start.as_ref().map(|e| expr(e)),"end":r.end.as_ref().map(|e| expr(e)),
         "inclusive": matches!(r.limits, RangeLimits::Closed(_))}),
      Expr::Try(t) => json!({"k":"try","e":expr(&t.expr)}),
      Expr::Verbatim(v) if v.is_empty() => json!({"k":"nop"}),
      other => json!({"k":"unknown","what":"expr","s":toks(other)}),
   }
}

fn stmt(s: &Stmt) -> Value {
   match s {
      Stmt::Local(l) => {
         let (p, t) = match &l.pat {
            Pat::Type(pt) => (pat(&pt.pat), Some(ty(&pt.ty))),
            other => (pat(other), None),
         };
         json!({"k":"local","pat":p,"ty":t,"init":l.init.as_ref().map(|i| expr(&i.expr)),
            "else": l.init.as_ref().and_then(|i| i.diverge.as_ref().map(|(_, e)| expr(e)))})
      },
      Stmt::Item(i) => json!({"k":"item","item":item(i)}),
      Stmt::Expr(e, semi) => json!({"k":"expr","e":expr(e),"semi":semi.is_some()}),
      Stmt::Macro(m) => json!({"k":"smacro","path":path_segs(&m.mac.path),"tokens":m.mac.tokens.to_string()}),
   }
}

fn sig(s: &Signature) -> Value {
   json!({"name": s.ident.to_string(),
      "params": s.inputs.iter().map(|a| match a {
         FnArg::Receiver(r) => json!({"k":"self","mut":r.mutability.is_some(),"ref":r.reference.is_some()}),
         FnArg::Typed(t) => json!({"k":"param","pat":pat(&t.pat),"ty":ty(&t.ty)}),
      }).collect::<Vec<_>>(),
      "ret": match &s.output { ReturnType::Default => Value::Null, ReturnType::Type(_, t) => ty(t) }})
}

fn attrs(a: &[Attribute]) -> Vec<String> { a.iter().map(|x| toks(x)).collect() }

fn item(i: &Item) -> Value {
   match i {
      Item::Mod(m) => json!({"k":"mod","name":m.ident.to_string(),
         "items": m.content.as_ref().map(|(_, is)| is.iter().map(item).collect::<Vec<_>>())}),
      Item::Struct(s) => json!({"k":"struct","name":s.ident.to_string(),"generics":toks(&s.generics),
         "fields": s.fields.iter().enumerate().map(|(n, f)| json!({
            "name": f.ident.as_ref().map(|x| x.to_string()).unwrap_or(n.to_string()),
            "ty": ty(&f.ty), "pub": matches!(f.vis, Visibility::Public(_)), "attrs": attrs(&f.attrs)})).collect::<Vec<_>>()}),
      Item::Impl(im) => json!({"k":"impl","self_ty":ty(&im.self_ty),
         "trait": im.trait_.as_ref().map(|(_, p, _)| toks(p)),
         "items": im.items.iter().map(|ii| match ii {
            ImplItem::Fn(f) => json!({"k":"fn","sig":sig(&f.sig),"body":block(&f.block),"attrs":attrs(&f.attrs)}),
            other => json!({"k":"impl_other","s":toks(other).chars().take(200).collect::<String>()}),
         }).collect::<Vec<_>>()}),
      Item::Fn(f) => json!({"k":"fn","sig":sig(&f.sig),"body":block(&f.block),"attrs":attrs(&f.attrs)}),
      Item::Use(u) => json!({"k":"use","s":toks(u)}),
      Item::Macro(m) => json!({"k":"item_macro","path":path_segs(&m.mac.path),"ident":m.ident.as_ref().map(|x| x.to_string()),
         "tokens": m.mac.tokens.to_string()}),
      Item::Const(c) => json!({"k":"const","name":c.ident.to_string(),"ty":ty(&c.ty),"e":expr(&c.expr)}),
      Item::Static(c) => json!({"k":"static","name":c.ident.to_string(),"ty":ty(&c.ty),"e":expr(&c.expr)}),
      other => json!({"k":"item_other","s":toks(other).chars().take(300).collect::<String>()}),
   }
}

fn main() {
   let args: Vec<String> = std::env::args().collect();
   if args.len() < 2 {
      eprintln!("usage: rs2json <file.rs> [out.json]");
      std::process::exit(2);
   }
   let src = std::fs::read_to_string(&args[1]).expect("read input");
   let file = match syn::parse_file(&src) {
      Ok(f) => f,
      Err(e) => {
         eprintln!("rs2json: parse error: {e}");
         std::process::exit(3);
      },
   };
   let out = json!({"k":"file","items": file.items.iter().map(item).collect::<Vec<_>>()});
   let s = serde_json::to_string(&out).unwrap();
   if args.len() > 2 {
      std::fs::write(&args[2], s).expect("write output");
   } else {
      println!("{s}");
   }
}
