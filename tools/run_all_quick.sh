#!/bin/bash
# regenerate every evidence file on the current tree (quick tier)
cd /verif
for p in C01 C03 C04 C05 C06 C07 C08 C09 C13 C14 C16 C17 C18 C19; do
  s=$(date +%s); ./check.py $p --tier ${1:-quick} > .cache/logs/all-$p.out 2>&1; rc=$?
  echo "$p rc=$rc $(( $(date +%s) - s ))s $(grep -E "^$p" .cache/logs/all-$p.out | cut -c1-160)"
done
