#!/bin/bash
# usage: tools/seedtest.sh <patch.diff> <label> <property>...   — apply a seeded mutation to /repo, run the quick checks, undo
patch="$1"; label="$2"; shift 2
mkdir -p /verif/.cache/seedtests
if ! git -C /repo apply --check "$patch" 2>/dev/null; then echo "$label: patch does not apply"; exit 3; fi
git -C /repo apply "$patch"
for p in "$@"; do
  ( cd /verif && ./check.py "$p" --tier quick > /verif/.cache/seedtests/$label-$p.log 2>&1; echo "$label $p exit=$?" )
done
git -C /repo checkout -- .
git -C /repo status --short | grep -v Cargo.lock
