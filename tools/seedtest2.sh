#!/bin/bash
# usage: tools/seedtest2.sh <patch.diff> <label> <property>...
# Applies a seeded mutation to a *copy* of /repo (a scratch git worktree) and runs the quick checks against it
# (VERIF_REPO / VERIF_RUN): /repo itself, the registered evidence files and replays stay untouched, so several
# of these can run side by side with normal work.
patch="$1"; label="$2"; shift 2
wt=/tmp/mut_$label
mkdir -p /verif/.cache/seedtests
git -C /repo worktree remove --force $wt >/dev/null 2>&1
git -C /repo worktree add -q $wt HEAD || exit 4
cp /repo/Cargo.lock $wt/ 2>/dev/null
if ! git -C $wt apply "$patch"; then echo "$label: patch does not apply"; git -C /repo worktree remove --force $wt; exit 3; fi
for p in "$@"; do
  ( cd /verif && VERIF_REPO=$wt VERIF_RUN=$label ./check.py "$p" --tier quick > /verif/.cache/seedtests/$label-$p.log 2>&1; echo "$label $p exit=$?" )
done
git -C /repo worktree remove --force $wt
rm -rf /verif/.cache/sideruns/$label/crate-* 
