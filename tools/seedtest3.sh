#!/bin/bash
# usage: tools/seedtest3.sh <patch.diff> <label> <property> <only-substring>   (like seedtest2.sh, restricted to jobs whose program name contains the substring)
patch="$1"; label="$2"; p="$3"; only="$4"
wt=/tmp/mut_$label
mkdir -p /verif/.cache/seedtests
git -C /repo worktree remove --force $wt >/dev/null 2>&1
git -C /repo worktree add -q $wt HEAD || exit 4
cp /repo/Cargo.lock $wt/ 2>/dev/null
if ! git -C $wt apply "$patch"; then echo "$label: patch does not apply"; git -C /repo worktree remove --force $wt; exit 3; fi
( cd /verif && VERIF_REPO=$wt VERIF_RUN=$label ./check.py "$p" --tier quick --only "$only" > /verif/.cache/seedtests/$label-$p-only.log 2>&1; echo "$label $p only=$only exit=$?" )
git -C /repo worktree remove --force $wt
rm -rf /verif/.cache/sideruns/$label/crate-*
