import json,sys,jsonschema,glob
sch=json.load(open('/root/.vp/EVIDENCE.schema.json'))
for f in sorted(glob.glob('/verif/evidence/*.json')):
    try:
        jsonschema.validate(json.load(open(f)),sch); print(f,'ok')
    except Exception as e: print(f,'INVALID',str(e)[:300])
